"""Shared vocabulary: Violation, CaseInfo, Family, simulation helper, schedule strategies."""
import gc
import hashlib
import json
import sys
from dataclasses import dataclass, field
from typing import Any, Callable, Optional

from hypothesis import strategies as st

from . import detsched as ds


class Violation(Exception):
    """An oracle clause failed. `clause` is a short stable id, `signature` identifies the root-cause site."""

    def __init__(self, clause, detail='', signature=None, extra=None):
        super().__init__(f'{clause}: {detail}')
        self.clause = clause
        self.detail = detail
        self.signature = signature
        self.extra = extra or {}


class Inconclusive(Exception):
    """The case could not be decided (step budget, watchdog on a real-process case...). Never a violation."""


@dataclass
class CaseInfo:
    nontrivial: bool = False
    descriptor: Any = None  # hashable/JSON-able: what makes this case distinct
    classes: tuple = ()  # histogram labels
    metrics: dict = field(default_factory=dict)  # name -> number (max is kept)
    sample: Any = None  # JSON-able short description


@dataclass
class Family:
    name: str
    engine: str  # 'sim' | 'real' | 'pure'
    strategy: Any  # hypothesis strategy producing a JSON-able params dict
    run: Callable[[dict], CaseInfo]  # raises Violation / Inconclusive
    quick: int  # total cases in quick tier (over all shards)
    thorough: int
    rule: str = ''
    shards_quick: int = 4
    shards_thorough: int = 16
    shrink: bool = True
    retries: int = 2  # confirmation re-runs of a shrunk failure
    setup: Optional[Callable[[], None]] = None  # once per shard process (warm-up, imports)
    teardown: Optional[Callable[[], None]] = None
    stateful: Any = None  # optional: callable(shardctx) running its own hypothesis driver
    min_nontrivial_frac: float = 0.0
    fuzz: tuple = ()  # modules to instrument for the coverage-guided extra (thorough tier); empty = no fuzz shard
    quick_budget_s: float = 150.0
    thorough_budget_s: float = 1500.0


def dhash(obj):
    s = json.dumps(obj, sort_keys=True, default=repr)
    return hashlib.blake2b(s.encode(), digest_size=8).hexdigest()


# ------------------------------------------------------------------ schedules as Hypothesis values


def tape_strategy(max_len=200, alphabet=6):
    # mostly zeros so that the default policy dominates and preemptions are few; fixed length: Hypothesis' default
    # average list size is ~5, far too short to reach deep scheduling decisions
    elem = st.one_of(st.just(0), st.just(0), st.just(0), st.integers(0, alphabet))
    n = max(8, max_len // 2)
    return st.builds(lambda t: {'kind': 'tape', 'tape': t}, st.lists(elem, min_size=n, max_size=max_len))


def dense_tape_strategy(max_len=200, alphabet=6):
    n = max(8, max_len // 2)
    return st.builds(lambda t: {'kind': 'tape', 'tape': t}, st.lists(st.integers(0, alphabet), min_size=n, max_size=max_len))


def sparse_strategy(max_pos=400, max_preemptions=8, alphabet=6):
    """a handful of preemptions at generated branching-decision indices; everything else follows the default policy"""
    return st.builds(
        lambda pre: {'kind': 'sparse', 'pre': sorted(pre)},
        st.lists(st.tuples(st.integers(0, max_pos), st.integers(1, alphabet)).map(list), max_size=max_preemptions),
    )


def pct_strategy(est_steps=2000, depth=4, stalls=0):
    return st.builds(
        lambda p, c, s: {'kind': 'pct', 'prios': p, 'changes': sorted(c), 'stalls': sorted(s)},
        st.lists(st.integers(0, 1000), min_size=8, max_size=8),
        st.lists(st.integers(0, est_steps), max_size=depth),
        st.lists(st.integers(0, est_steps), max_size=stalls) if stalls else st.just([]),
    )


def _with_flips(sched, flips, expiry_last):
    if flips:
        sched = dict(sched, flips=flips)
    if expiry_last:
        sched = dict(sched, expiry_last=True)
        if not flips:
            sched['flips'] = [1, 1, 1, 1]
    return sched


def sched_strategy(max_len=200, est_steps=2000, depth=4, stalls=0):
    base = st.one_of(
        st.just({'kind': 'default'}),
        sparse_strategy(max_pos=max(50, est_steps // 4)),
        tape_strategy(max_len),
        dense_tape_strategy(max_len),
        pct_strategy(est_steps, depth, stalls),
        pct_strategy(est_steps, depth, stalls),
    )
    # `flips`: bits for the binary decisions that are not thread choices (timed lock wait: expiry vs. same-instant release)
    # `expiry_last`: threads whose timed wait expired run after everybody else at that instant (see detsched)
    return st.builds(
        _with_flips,
        base,
        st.one_of(st.just([]), st.just([]), st.lists(st.sampled_from([0, 1, 1]), min_size=1, max_size=6)),
        st.sampled_from([False, False, False, True]),
    )


# ------------------------------------------------------------------ running one simulated case


@dataclass
class SimOutcome:
    sim: Any
    result: Any
    exc: Optional[BaseException]

    @property
    def verdict(self):
        return self.sim.verdict


def run_sim(
    fn,
    sched,
    *,
    horizon=3600.0,
    max_steps=300_000,
    on_step=None,
    max_stall=0.0,
    stall_budget=0.0,
    lines=False,
    creep=False,
):
    """Run fn() as thread 0 of a fresh simulation under the schedule `sched` (JSON-able dict)."""
    from . import linemon

    sim = ds.Sim(
        ds.make_chooser(sched),
        horizon=horizon,
        max_steps=max_steps,
        on_step=on_step,
        max_stall=max_stall,
        stall_budget=stall_budget,
        creep=creep,
    )
    sim.flip_bits = tuple(sched.get('flips', ()))
    sim.expiry_last = bool(sched.get('expiry_last'))
    gc_was = gc.isenabled()
    gc.disable()
    if lines:
        linemon.enable(True)
    try:
        result, exc = sim.run(fn)
    finally:
        if lines:
            linemon.enable(False)
        if gc_was:
            gc.enable()
        ds.CASE_STATS['flip_points'] += sim.nflips
        ds.CASE_STATS['flips_taken'] += sim.flips_taken
    return SimOutcome(sim, result, exc)


def hang_check(out, *, allow_steps_inconclusive=True):
    """Translate scheduler verdicts into Violation / Inconclusive. Call first in every sim oracle."""
    v = out.sim.verdict
    if out.exc is not None and not isinstance(out.exc, Violation):
        # the scenario function itself raised: whatever the scheduler says afterwards (leaked threads...) is a consequence
        import traceback

        tb = ''.join(traceback.format_exception(type(out.exc), out.exc, out.exc.__traceback__))[-1500:]
        raise Violation('scenario_exception', f'{type(out.exc).__name__}: {out.exc}\n{tb}', signature=['exc', type(out.exc).__name__])
    if v is None:
        return
    if v == 'steps':
        raise Inconclusive('step budget exhausted')
    if v.endswith('livelock'):
        sig = out.sim.signature()
        rep = [f"T{r['idx']}:{r['name']}:{r['what']}@{r['site'][0]}:{r['site'][1]}:{r['site'][2]}" if r['site'] else f"T{r['idx']}:{r['name']}:{r['what']}" for r in out.sim.blocked_report]
        raise Violation(v.replace(':', '_'), f'virtual t={out.sim.now - out.sim.t0:.3f}s: no thread has waited for anything during the last {out.sim.steps - out.sim.last_idle_step} scheduling steps (spinning); unfinished: {rep}', signature=sig)
    sig = out.sim.signature()
    rep = [
        f"T{r['idx']}:{r['name']}:{r['what']}@{r['site'][0]}:{r['site'][1]}:{r['site'][2]}" if r['site'] else f"T{r['idx']}:{r['name']}:{r['what']}"
        for r in out.sim.blocked_report
    ]
    raise Violation(v.replace(':', '_'), f'virtual t={out.sim.now - out.sim.t0:.3f}s unfinished: {rep}', signature=sig)


def exc_sig(e):
    """(type, args) comparison key for exceptions"""
    if e is None:
        return None
    return (type(e).__module__ + '.' + type(e).__qualname__, _jsonable(e.args))


def _jsonable(x):
    try:
        json.dumps(x)
        return x
    except Exception:
        return repr(x)


def jsonable(x):
    if isinstance(x, BaseException):
        return {'exc': type(x).__name__, 'args': _jsonable(list(x.args))}
    if isinstance(x, (list, tuple)):
        return [jsonable(v) for v in x]
    if isinstance(x, dict):
        return {str(k): jsonable(v) for k, v in x.items()}
    return _jsonable(x)
