"""Check driver: ./check <Cxx> <quick|thorough> | ./check <Cxx> --replay <file>

Shards the families of a property over worker processes, aggregates counters into evidence/<Cxx>.json,
prints VIOLATION / KNOWN-FINDING lines, exits 0 / 1 / 2 (harness error, never with a VIOLATION line).
"""
import glob
import hashlib
import importlib
import json
import os
import subprocess
import sys
import tempfile
import time

ROOT = os.path.dirname(os.path.dirname(os.path.abspath(__file__)))
sys.path.insert(0, ROOT)

LEVELS = {'C11': 'fault_enumeration', 'C12': 'fault_enumeration'}
QUICK_FACTOR = {'sim': 3, 'pure': 2, 'real': 2, ('C18', 'F2_socket_end_to_end'): 1, ('C18', 'F3_named_pipe'): 1, ('C02', 'F1_server'): 2, ('C14', 'F1_call_histories'): 4, ('C20', 'F1_log_forwarding'): 3}


def derive_seed(base, *parts):
    h = hashlib.blake2b(('|'.join(str(p) for p in (base,) + parts)).encode(), digest_size=4).hexdigest()
    return int(h, 16)


def repo_state():
    try:
        head = subprocess.run(['git', '-C', '/repo', 'rev-parse', 'HEAD'], capture_output=True, text=True).stdout.strip()
        diff = subprocess.run(['git', '-C', '/repo', 'diff', 'HEAD'], capture_output=True, text=True).stdout
        return head, hashlib.sha1(diff.encode()).hexdigest()[:12] if diff else 'clean'
    except Exception:
        return '?', '?'


def main(argv):
    if len(argv) < 2:
        print(__doc__)
        return 2
    prop = argv[0].upper()
    replay_file = None
    if argv[1] == '--replay':
        replay_file = os.path.abspath(argv[2])
        tier = 'quick'
    else:
        tier = argv[1]
    assert tier in ('quick', 'thorough')
    base_seed = int(os.environ.get('VERIF_SEED', '1') or '1')
    t0 = time.monotonic()

    env = dict(os.environ)
    env['PYTHONHASHSEED'] = '0'
    env['PYTHONPATH'] = ROOT + os.pathsep + os.path.join(ROOT, '.deps') + (os.pathsep + env['PYTHONPATH'] if env.get('PYTHONPATH') else '')
    env['PYTHONDONTWRITEBYTECODE'] = '1'
    env['MPSERVICE_VERIF'] = '1'

    import mpservice

    src = os.environ.get('VERIF_REPO_SRC', '/repo/src')
    if not os.path.abspath(mpservice.__file__).startswith(os.path.abspath(src)):
        print(f'HARNESS-ERROR mpservice imported from {mpservice.__file__}, expected under {src}', file=sys.stderr)
        return 2

    mod = importlib.import_module('props.' + prop.lower())
    fams = list(mod.FAMILIES)
    work = tempfile.mkdtemp(prefix=f'{prop}_', dir=os.path.join(ROOT, '.work')) if os.path.isdir(os.path.join(ROOT, '.work')) else None
    if work is None:
        os.makedirs(os.path.join(ROOT, '.work'), exist_ok=True)
        work = tempfile.mkdtemp(prefix=f'{prop}_', dir=os.path.join(ROOT, '.work'))

    # temporary files of the cases (manager sockets of killed processes, socket and FIFO directories) live under the work directory
    # and disappear with it; AF_UNIX paths are limited to ~108 bytes, so only if the path is short enough
    tmpd = os.path.join(work, 't')
    if len(tmpd) < 64:
        os.makedirs(tmpd, exist_ok=True)
        env['TMPDIR'] = tmpd

    jobs = []  # (spec)
    if replay_file is not None:
        with open(replay_file) as f:
            r = json.load(f)
        fam = {f.name: f for f in fams}[r['family']]
        jobs.append({'prop': prop, 'family': fam.name, 'engine': fam.engine, 'mode': 'replay', 'files': [replay_file], 'seed': base_seed})
    else:
        # regression tier: committed replays first
        files = sorted(glob.glob(os.path.join(ROOT, 'replays', prop, '*.json')))
        by_fam = {}
        for p in files:
            try:
                with open(p) as f:
                    by_fam.setdefault(json.load(f)['family'], []).append(p)
            except Exception:
                pass
        for fam in fams:
            if fam.name in by_fam:
                jobs.append({'prop': prop, 'family': fam.name, 'engine': fam.engine, 'mode': 'replay', 'files': by_fam[fam.name], 'seed': base_seed})
        scale = float(os.environ.get('VERIF_SCALE', '1'))
        for fam in fams:
            total = fam.quick if tier == 'quick' else fam.thorough
            if tier == 'quick':
                # the per-family quick counts in props/ are the calibration unit (5-20 s per check); the registered quick tier runs
                # a multiple of it so that a check takes roughly 30-90 s on 16 cores
                total = total * QUICK_FACTOR.get((prop, fam.name), QUICK_FACTOR.get(fam.engine, 1))
            total = max(1, int(total * scale))
            nsh = fam.shards_quick if tier == 'quick' else fam.shards_thorough
            nsh = max(1, min(nsh, total))
            per = (total + nsh - 1) // nsh
            for i in range(nsh):
                jobs.append(
                    {
                        'prop': prop,
                        'family': fam.name,
                        'engine': fam.engine,
                        'mode': 'search',
                        'seed': derive_seed(base_seed, prop, fam.name, i),
                        'examples': per,
                        'budget_s': fam.quick_budget_s if tier == 'quick' else fam.thorough_budget_s,
                        'shrink': True,
                        'shard': i,
                        'tier': tier,
                    }
                )
    if replay_file is None:
        fuzz_s = float(os.environ.get('VERIF_FUZZ_S', '300' if tier == 'thorough' else '0'))
        if fuzz_s > 0:
            for fam in fams:
                if fam.fuzz:
                    for i in range(2):
                        jobs.append({'prop': prop, 'family': fam.name, 'engine': 'fuzz', 'mode': 'fuzz', 'seconds': fuzz_s, 'seed': derive_seed(base_seed, prop, fam.name, 'fuzz', i), 'modules': list(fam.fuzz), 'budget_s': fuzz_s + 60})
    for k, j in enumerate(jobs):
        j['out'] = os.path.join(work, f'shard_{k}.json')

    maxpar = int(os.environ.get('VERIF_JOBS', '16'))
    running = []
    pending = list(jobs)
    done = []
    harness_errors = []
    while pending or running:
        while pending and len(running) < maxpar:
            j = pending.pop(0)
            log = open(j['out'] + '.log', 'w')
            p = subprocess.Popen(
                [sys.executable, '-m', 'vf.fuzzshard' if j['mode'] == 'fuzz' else 'vf.shard', json.dumps(j)], cwd=ROOT, env=env, stdout=log, stderr=subprocess.STDOUT
            )
            running.append((p, j, log, time.monotonic()))
        time.sleep(0.05)
        for item in list(running):
            p, j, log, ts = item
            rc = p.poll()
            hard = (j.get('budget_s', 600) * 2 + 600)
            if rc is None and time.monotonic() - ts > hard:
                p.kill()
                rc = p.wait()
                harness_errors.append(f"shard {j['family']}#{j.get('shard')} exceeded hard limit {hard}s and was killed")
            if rc is not None:
                running.remove(item)
                log.close()
                done.append((j, rc))

    # aggregate
    agg = {
        'evaluations': 0,
        'nontrivial': set(),
        'families': {},
        'samples': [],
        'inconclusive': 0,
        'skipped_budget': 0,
        'excluded_known': {},
        'violations': [],
        'unconfirmed': [],
    }
    for j, rc in done:
        try:
            with open(j['out']) as f:
                o = json.load(f)
        except Exception as e:
            tail = ''
            try:
                with open(j['out'] + '.log') as f:
                    tail = f.read()[-2000:]
            except Exception:
                pass
            harness_errors.append(f"shard {j['family']} produced no result (rc={rc}): {e}\n{tail}")
            continue
        if 'fatal' in o:
            harness_errors.append(f"shard {j['family']} fatal: {o['fatal']}")
            continue
        fa = agg['families'].setdefault(
            o['family'],
            {'evaluations': 0, 'nontrivial': set(), 'classes': {}, 'metrics': {}, 'inconclusive': 0, 'rule': o.get('rule', ''), 'replayed': 0, 'skipped_budget': 0},
        )
        if j['mode'] == 'replay':
            fa['replayed'] += o['evaluations']
        if j['mode'] == 'fuzz':
            fa['atheris_evaluations'] = fa.get('atheris_evaluations', 0) + o['evaluations']
            if o.get('skipped_reason'):
                fa['atheris_skipped'] = o['skipped_reason'][:200]
        fa['evaluations'] += o['evaluations']
        fa['nontrivial'].update(o['nontrivial'])
        fa['inconclusive'] += o['inconclusive']
        fa['skipped_budget'] += o.get('skipped_budget', 0)
        for c, n in o['classes'].items():
            fa['classes'][c] = fa['classes'].get(c, 0) + n
        for k, v in o['metrics'].items():
            if k not in fa['metrics'] or v > fa['metrics'][k]:
                fa['metrics'][k] = v
        agg['evaluations'] += o['evaluations']
        agg['nontrivial'].update(o['family'] + ':' + h for h in o['nontrivial'])
        agg['inconclusive'] += o['inconclusive']
        agg['skipped_budget'] += o.get('skipped_budget', 0)
        for s in o['samples']:
            if len([1 for x in agg['samples'] if x.get('family') == o['family']]) < 2:
                agg['samples'].append({'family': o['family'], 'case': s})
        for k, v in o['excluded_known'].items():
            agg['excluded_known'][k] = agg['excluded_known'].get(k, 0) + v
        for smp in o.get('inconclusive_samples', []):
            if len(agg.setdefault('inconclusive_samples', [])) < 3:
                agg['inconclusive_samples'].append({'family': o['family'], **smp})
        agg['violations'].extend(o['violations'])
        agg['unconfirmed'].extend(o['unconfirmed'])
        harness_errors.extend(f"{o['family']}: {h}" for h in o['harness_errors'])

    # distinct violations by (family, clause, signature)
    seen = {}
    for v in agg['violations']:
        key = json.dumps([v['family'], v['clause'], v['signature']], sort_keys=True, default=repr)
        seen.setdefault(key, v)
    violations = list(seen.values())

    from vf import findings as kf

    known = {e['id']: e for e in kf.load()}
    for kid, n in sorted(agg['excluded_known'].items()):
        e = known.get(kid, {})
        print(f"KNOWN-FINDING: property={prop} {kid} {e.get('description', '')} (excluded {n} cases)")
    for v in violations:
        print(f"VIOLATION property={prop} replay={v['replay']}")
        print(f"  family={v['family']} clause={v['clause']} signature={json.dumps(v['signature'], default=repr)}")
        print(f"  detail: {v['detail'][:600]}")
    for u in agg['unconfirmed']:
        print(f"NOTE unconfirmed (did not recur on re-run, not reported): family={u['family']} clause={u['clause']} detail={u.get('detail', '')[:300]!r} params={json.dumps(u.get('params'), default=repr)[:400]}", file=sys.stderr)

    head, diff = repo_state()
    wall = time.monotonic() - t0
    level = LEVELS.get(prop, 'exploration')
    fam_out = {}
    for name, fa in agg['families'].items():
        fam_out[name] = {
            'evaluations': fa['evaluations'],
            'distinct_nontrivial': len(fa['nontrivial']),
            'replayed_regressions': fa['replayed'],
            'inconclusive': fa['inconclusive'],
            'skipped_budget': fa['skipped_budget'],
            'classes': dict(sorted(fa['classes'].items())),
            'max_observed': fa['metrics'],
            'rule': fa['rule'],
        }
        if 'atheris_evaluations' in fa:
            fam_out[name]['atheris_evaluations'] = fa['atheris_evaluations']
        if 'atheris_skipped' in fa:
            fam_out[name]['atheris_skipped'] = fa['atheris_skipped']
    evidence = {
        'property_id': prop,
        'tier': tier,
        'seed': base_seed,
        'level': level,
        'wall_s': round(wall, 2),
        'violations': len(violations),
        'assumptions': list(getattr(mod, 'ASSUMPTIONS', [])),
        'coverage': {
            'evaluations': agg['evaluations'],
            'distinct_nontrivial': len(agg['nontrivial']),
            'rule': getattr(mod, 'RULE', '') or ' | '.join(f"{n}: {f['rule']}" for n, f in fam_out.items()),
            'samples': agg['samples'],
            'families': fam_out,
            'inconclusive': agg['inconclusive'],
            'skipped_budget': agg['skipped_budget'],
            'excluded_known': agg['excluded_known'],
            'unconfirmed': len(agg['unconfirmed']),
            'unconfirmed_samples': [{'family': u.get('family'), 'clause': u.get('clause'), 'detail': str(u.get('detail', ''))[:4000], 'params': u.get('params'), 'note': u.get('note')} for u in agg['unconfirmed'][:3]],
            'inconclusive_samples': agg.get('inconclusive_samples', []),
            'harness_errors': harness_errors[:5],
            'repo_head': head,
            'repo_diff': diff,
            'mode': 'replay' if replay_file else 'search',
        },
    }
    if getattr(mod, 'EXHAUSTIVE_NOTE', None):
        evidence['coverage']['exhaustive_note'] = mod.EXHAUSTIVE_NOTE
    if replay_file is None:
        evdir = os.environ.get('VERIF_EVIDENCE_DIR') or os.path.join(ROOT, 'evidence')
        os.makedirs(evdir, exist_ok=True)
        with open(os.path.join(evdir, f'{prop}.json'), 'w') as f:
            json.dump(evidence, f, indent=1, default=repr)
    for n, f in fam_out.items():
        print(
            f"[{prop}/{n}] cases={f['evaluations']} nontrivial_distinct={f['distinct_nontrivial']} inconclusive={f['inconclusive']} "
            f"skipped={f['skipped_budget']} max={json.dumps(f['max_observed'])}"
        )
    print(f'[{prop}] tier={tier} seed={base_seed} wall={wall:.1f}s violations={len(violations)} known_excluded={sum(agg["excluded_known"].values())}')

    # clean work dir
    if not os.environ.get('VERIF_KEEP_WORK'):
        import shutil

        shutil.rmtree(work, ignore_errors=True)

    if violations:
        return 1
    if harness_errors:
        seen_h = set()
        for h in harness_errors:
            first = h.strip().splitlines()[0] if h.strip() else h
            if first in seen_h:
                continue
            seen_h.add(first)
            print('HARNESS-ERROR ' + h[:3000], file=sys.stderr)
            if len(seen_h) >= 5:
                break
        return 2
    return 0


if __name__ == '__main__':
    sys.exit(main(sys.argv[1:]))
