"""One shard process: runs one family of one property for a number of generated cases, or replays files.

usage: python -m vf.shard '<json spec>'
spec = {prop, family, engine, mode: 'search'|'replay', seed, examples, budget_s, out, shrink, files:[...]}
"""
import json
import os
import sys
import time as _time_mod

_real_monotonic = _time_mod.monotonic

spec = None


def _bootstrap():
    global spec
    spec = json.loads(sys.argv[1])
    if spec['engine'] == 'sim':
        from vf import detsched

        detsched.install()
        from vf import simloop

        simloop.install()
        detsched.start_watchdog(float(os.environ.get('VERIF_WATCHDOG_S', '180')), label=f"{spec['prop']}/{spec['family']}")
        import threading
        import logging

        threading.excepthook = lambda args: None
        sys.unraisablehook = lambda args: None
        logging.disable(logging.CRITICAL)


if __name__ == '__main__':
    _bootstrap()

import importlib
import traceback

import hypothesis
from hypothesis import HealthCheck, Phase, given, seed, settings

from vf.core import CaseInfo, Inconclusive, Violation, dhash, jsonable
from vf import findings as kf


def _recurs_in_fresh_process(rec):
    import subprocess

    base = spec['out'] + '.confirm'
    with open(base + '.json', 'w') as f:
        json.dump(rec, f, default=repr)
    nested = dict(spec, mode='replay', files=[base + '.json'], out=base + '.out', nested=True)
    try:
        subprocess.run([sys.executable, '-m', 'vf.shard', json.dumps(nested)], timeout=1800, stdout=subprocess.DEVNULL, stderr=subprocess.DEVNULL)
        with open(base + '.out') as f:
            o = json.load(f)
    except BaseException:
        return True  # cannot tell: keep the in-process verdict
    if o.get('fatal') or o.get('harness_errors'):
        return True
    return bool(o.get('violations'))


def main():
    mod = importlib.import_module('props.' + spec['prop'].lower())
    fam = {f.name: f for f in mod.FAMILIES}[spec['family']]
    out = {
        'prop': spec['prop'],
        'family': fam.name,
        'evaluations': 0,
        'nontrivial': [],
        'classes': {},
        'metrics': {},
        'samples': [],
        'inconclusive': 0,
        'skipped_budget': 0,
        'excluded_known': {},
        'violations': [],
        'unconfirmed': [],
        'harness_errors': [],
        'rule': fam.rule,
    }
    nontrivial = set()
    known = kf.load()
    t_start = _real_monotonic()
    budget = float(spec.get('budget_s', 1e9))
    state = {'last_fail': None}

    if fam.setup is not None:
        try:
            fam.setup()  # warm-up only (lazy imports); its verdicts are ignored
        except (Violation, Inconclusive):
            pass

    def account(info, params):
        out['evaluations'] += 1
        if info is None:
            return
        for c in info.classes:
            out['classes'][c] = out['classes'].get(c, 0) + 1
        if fam.engine == 'sim':
            from vf import detsched as _ds

            if _ds.CASE_STATS['flip_points']:
                out['classes']['sched:timed_wait_expiry_race'] = out['classes'].get('sched:timed_wait_expiry_race', 0) + 1
            if _ds.CASE_STATS['flips_taken']:
                out['classes']['sched:timed_wait_expired_first'] = out['classes'].get('sched:timed_wait_expired_first', 0) + 1
            _ds.CASE_STATS['flip_points'] = _ds.CASE_STATS['flips_taken'] = 0
        for k, v in info.metrics.items():
            if k not in out['metrics'] or v > out['metrics'][k]:
                out['metrics'][k] = v
        if info.nontrivial:
            h = dhash(info.descriptor if info.descriptor is not None else params)
            if h not in nontrivial:
                nontrivial.add(h)
                if len(out['samples']) < 3:
                    out['samples'].append(jsonable(info.sample if info.sample is not None else params))

    hang_memo = {}

    def _run_family(params):
        """fam.run, except that a case of a real-process family already judged 'hang' in this shard (three attempts) is not run
        again here (Hypothesis replays its final failure, and the in-process confirmation would repeat it once more)"""
        if fam.engine != 'real':
            return fam.run(params)
        h = dhash(params)
        if h in hang_memo:
            raise Violation(*hang_memo[h])
        try:
            return fam.run(params)
        except Violation as v:
            if v.clause == 'hang':
                hang_memo[h] = (v.clause, v.detail, v.signature)
            raise

    def run_one(params, counting=True):
        """returns None if ok/excluded, raises Violation if an unlisted violation"""
        try:
            info = _run_family(params)
        except Inconclusive as inc:
            out['inconclusive'] += 1
            if len(out.setdefault('inconclusive_samples', [])) < 2:
                out['inconclusive_samples'].append({'why': str(inc)[:200], 'params': params})
            if counting:
                out['evaluations'] += 1
            return
        except Violation as v:
            if counting:
                out['evaluations'] += 1
            m = kf.match(known, spec['prop'], fam.name, v, params)
            if m is not None:
                out['excluded_known'][m['id']] = out['excluded_known'].get(m['id'], 0) + 1
                return
            # drop the frames: they would keep the case's objects (proxies, servers...) alive and change later cases
            v.__traceback__ = None
            v.__context__ = None
            state['last_fail'] = (params, v)
            if fam.engine == 'real' and v.clause == 'hang':
                # a hang of real processes costs minutes per evaluation (three attempts with growing budgets): no shrinking
                state['t_first_fail'] = float('-inf')
            raise v from None
        if counting:
            account(info, params)

    def confirm_and_record(params, v, src):
        """re-run a failing case; only a recurring failure is reported"""
        recurred = 0
        last = v
        for _ in range(max(1, fam.retries)):
            try:
                _run_family(params)
            except Violation as v2:
                if kf.match(known, spec['prop'], fam.name, v2, params) is None:
                    recurred += 1
                    last = v2
                    break
            except Inconclusive:
                pass
            except BaseException as e:  # harness trouble while confirming
                out['harness_errors'].append(f'confirm: {type(e).__name__}: {e}')
        rec = {
            'property': spec['prop'],
            'family': fam.name,
            'params': params,
            'clause': last.clause,
            'detail': last.detail[:4000],
            'signature': last.signature,
            'source': src,
        }
        if recurred and fam.engine == 'real' and not spec.get('nested'):
            # real processes: the replay file must reproduce on its own. A failure that only recurs inside this (long-lived)
            # shard process may come from state of the process itself (a killed resource tracker, exhausted descriptors...)
            if not _recurs_in_fresh_process(rec):
                recurred = 0
                rec['note'] = 'recurred in the shard process but not in a fresh process: not reported'
        if recurred:
            d = os.path.join(os.path.dirname(os.path.dirname(os.path.abspath(__file__))), 'replays', 'found')
            os.makedirs(d, exist_ok=True)
            path = os.path.join(d, f"{spec['prop']}_{fam.name}_{dhash([params, last.clause])}.json")
            with open(path, 'w') as f:
                json.dump(rec, f, indent=1, default=repr)
            rec['replay'] = path
            out['violations'].append(rec)
        else:
            out['unconfirmed'].append(rec)

    if spec['mode'] == 'replay':
        for path in spec['files']:
            with open(path) as f:
                r = json.load(f)
            if r.get('family') != fam.name:
                continue
            try:
                run_one(r['params'])
            except Violation as v:
                confirm_and_record(r['params'], v, 'replay:' + os.path.basename(path))
            except BaseException as e:
                out['harness_errors'].append(f'replay {path}: {type(e).__name__}: {e}\n{traceback.format_exc()[-1500:]}')
    elif fam.stateful is not None:
        try:
            fam.stateful(spec, out, account, known, confirm_and_record)
        except BaseException as e:
            out['harness_errors'].append(f'{type(e).__name__}: {e}\n{traceback.format_exc()[-3000:]}')
    else:
        phases = [Phase.generate] + ([Phase.shrink] if spec.get('shrink', True) and fam.shrink else [])
        shrink_budget = float(spec.get('shrink_budget_s', 45.0))

        @seed(int(spec['seed']))
        @settings(
            max_examples=int(spec['examples']),
            database=None,
            deadline=None,
            report_multiple_bugs=False,
            suppress_health_check=list(HealthCheck),
            phases=phases,
            derandomize=False,
            print_blob=False,
        )
        @given(fam.strategy)
        def test(params):
            if state['last_fail'] is None and _real_monotonic() - t_start > budget:
                out['skipped_budget'] += 1
                return
            if state['last_fail'] is not None:
                # bounded shrinking: once the budget is used up every candidate other than the best known failing case
                # "passes" without being run, so Hypothesis stops improving and replays the best known failure
                state.setdefault('t_first_fail', _real_monotonic())
                if _real_monotonic() - state['t_first_fail'] > shrink_budget and params != state['last_fail'][0]:
                    return
            run_one(params)

        try:
            test()
        except Violation as v:
            params, v = state['last_fail']
            confirm_and_record(params, v, 'search')
        except BaseException as e:
            if state['last_fail'] is not None and isinstance(e, hypothesis.errors.Flaky):
                params, v = state['last_fail']
                confirm_and_record(params, v, 'search(flaky)')
            else:
                out['harness_errors'].append(f'{type(e).__name__}: {e}\n{traceback.format_exc()[-3000:]}')

    if fam.teardown is not None:
        try:
            fam.teardown()
        except BaseException as e:
            out['harness_errors'].append(f'teardown: {type(e).__name__}: {e}')
    out['nontrivial'] = sorted(nontrivial)
    out['wall_s'] = _real_monotonic() - t_start
    with open(spec['out'], 'w') as f:
        json.dump(out, f, default=repr)


if __name__ == '__main__':
    try:
        main()
    except BaseException as e:
        with open(spec['out'], 'w') as f:
            json.dump({'prop': spec['prop'], 'family': spec['family'], 'fatal': f'{type(e).__name__}: {e}\n{traceback.format_exc()[-4000:]}'}, f)
        sys.stdout.flush()
        os._exit(2)
    sys.stdout.flush()
    sys.stderr.flush()
    os._exit(0)
