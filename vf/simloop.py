"""Scheduler-aware asyncio event loop (DESIGN 2.4): a SelectorEventLoop whose selector blocks through detsched."""
import asyncio
import selectors

from . import detsched as ds


class SimSelector(selectors.DefaultSelector):
    def select(self, timeout=None):
        me = ds.cur()
        if me is None:
            return super().select(timeout)
        ev = super().select(0)
        if ev or (timeout is not None and timeout <= 0):
            if not ev:
                me.sim.yield_point('select0')
            return ev
        sim = me.sim
        deadline = None if timeout is None else sim.now + timeout
        sim.block_until(
            lambda: bool(selectors.DefaultSelector.select(self, 0)), deadline, what='select', positive=True
        )
        return super().select(0)


class SimEventLoop(asyncio.SelectorEventLoop):
    def __init__(self):
        super().__init__(selector=SimSelector())


class SimPolicy(asyncio.DefaultEventLoopPolicy):
    def new_event_loop(self):
        if ds.cur() is not None:
            return SimEventLoop()
        return super().new_event_loop()


def install():
    import warnings

    with warnings.catch_warnings():
        warnings.simplefilter('ignore')
        asyncio.set_event_loop_policy(SimPolicy())
