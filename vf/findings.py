"""Known findings (committed file, read-only at run time). See DESIGN 3."""
import json
import os

PATH = os.path.join(os.path.dirname(os.path.dirname(os.path.abspath(__file__))), 'known_findings.json')


def load():
    with open(PATH) as f:
        data = json.load(f)
    return [e for e in data.get('findings', []) if e.get('status') == 'open']


def _get(params, path):
    cur = params
    for p in path.split('.'):
        if isinstance(cur, dict):
            cur = cur.get(p)
        elif isinstance(cur, list):
            cur = cur[int(p)]
        else:
            return None
    return cur


_OPS = {
    '==': lambda a, b: a == b,
    '!=': lambda a, b: a != b,
    '<=': lambda a, b: a is not None and a <= b,
    '>=': lambda a, b: a is not None and a >= b,
    'in': lambda a, b: a in b,
    'contains': lambda a, b: a is not None and b in a,
}


def match(known, prop, family, v, params):
    """An open finding matches a violation iff property, family, oracle clause, blocked/raising sites and the
    params predicate all agree - specific enough that a different violation of the same property is reported."""
    for e in known:
        if e['property'] != prop:
            continue
        if family not in e.get('families', [family]):
            continue
        if e.get('clause') and e['clause'] != v.clause:
            continue
        sites = e.get('sites')
        if sites:
            have = set()
            if v.signature and len(v.signature) > 1 and isinstance(v.signature[1], list):
                have = {tuple(s) for s in v.signature[1]}
            if not all(tuple(s) in have for s in sites):
                continue
        only = e.get('only_sites')
        if only:
            have = set()
            if v.signature and len(v.signature) > 1 and isinstance(v.signature[1], list):
                have = {tuple(s) for s in v.signature[1]}
            if not have <= {tuple(s) for s in only}:
                continue
        dc = e.get('detail_contains')
        if dc and dc not in v.detail:
            continue
        ok = True
        for path, op, val in e.get('where', []):
            if not _OPS[op](_get(params, path), val):
                ok = False
                break
        if ok:
            return e
    return None
