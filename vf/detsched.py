"""
detsched - deterministic scheduler for real Python threads with a virtual clock (DESIGN 2.1-2.3).

The code under test runs on real OS threads, unmodified, but only one simulated thread runs at
a time (baton = per-thread gate lock).  A thread can lose the CPU only at a scheduling point
(lock acquire/release, thread start/join, sleep, timed wait, select of a simulated event loop,
optionally every source line of chosen files); at each point a *chooser* fed by generated data
picks who runs next.  Blocked threads register a predicate and an optional virtual deadline.

`install()` must run before `mpservice`, `queue`, `concurrent.futures`, `asyncio`, `logging`
are imported.
"""
import _thread
import math
import os
import sys
import threading
import time
import queue

_real_allocate = _thread.allocate_lock
_real_start_new_thread = _thread.start_new_thread
_real_sleep = time.sleep
_real_monotonic = time.monotonic
_real_perf_counter = time.perf_counter
_real_time = time.time
_real_get_ident = _thread.get_ident

_by_ident = {}  # ident -> TRec  (only for threads currently inside a sim)
_installed = [False]

# real-time heartbeat for the harness watchdog
heartbeat = {'t': _real_monotonic(), 'active': False, 'info': ''}


class SimAbort(BaseException):
    """Raised inside simulated threads to unwind them once a verdict was reached."""


NEW, RUNNABLE, BLOCKED, DONE = 'new', 'runnable', 'blocked', 'done'


class TRec:
    __slots__ = ('sim', 'idx', 'name', 'gate', 'state', 'pred', 'deadline', 'timed_out', 'thread', 'what', 'ident', 'last_run')

    def __init__(self, sim, idx, name):
        self.sim = sim
        self.idx = idx
        self.name = name
        self.gate = _real_allocate()
        self.gate.acquire()
        self.state = NEW
        self.pred = None
        self.deadline = None
        self.timed_out = False
        self.thread = None
        self.what = ''
        self.ident = None
        self.last_run = 0

    def __repr__(self):
        return f'<T{self.idx} {self.name} {self.state} {self.what}>'


def cur():
    rec = _by_ident.get(_real_get_ident())
    if rec is not None and rec.sim.active:
        return rec
    return None


def in_sim():
    return cur() is not None


def _innermost_pkg_frame(frame, pkg='mpservice'):
    """(file basename, function) of the innermost frame whose file path contains `pkg`."""
    f = frame
    while f is not None:
        fn = f.f_code.co_filename
        if pkg in fn and '/verif/' not in fn:
            rel = fn.split('mpservice/')[-1] if 'mpservice/' in fn else os.path.basename(fn)
            return (rel, f.f_code.co_name, f.f_lineno)
        f = f.f_back
    return None


class Sim:
    def __init__(
        self,
        chooser,
        horizon=3600.0,
        max_steps=300_000,
        on_step=None,
        t0=1000.0,
        max_stall=0.0,
        stall_budget=0.0,
        creep=False,
    ):
        self.chooser = chooser
        self.creep = creep
        self.t0 = t0
        self.horizon = t0 + horizon
        self.max_steps = max_steps
        self.on_step = on_step
        self.now = t0
        self.threads = []
        self.steps = 0
        self.switches = 0
        self.branchings = 0
        self.flip_bits = ()
        self.last_advance_step = 0
        self.streak = 0
        self.last_idle_step = 0
        self.expiry_last = False
        self.nflips = 0
        self.flips_taken = 0
        self.active = False
        self.aborting = False
        self.verdict = None  # None | 'deadlock' | 'horizon' | 'steps' | 'leak:deadlock' | 'leak:horizon'
        self.blocked_report = None  # list of dicts
        self.trace = []
        self.max_stall = max_stall
        self.stall_budget = stall_budget
        self.stall_used = 0.0
        self.draining = False
        self.in_sched = False  # True while scheduler/monitor code runs (line events must not re-enter)
        self.main_done_at = None
        self.max_threads = 0

    # ---- registration
    def _new_rec(self, name):
        rec = TRec(self, len(self.threads), name)
        self.threads.append(rec)
        return rec

    def run(self, fn):
        """Run fn() in the calling thread as sim thread 0; returns (result, exc)."""
        assert cur() is None, 'nested simulation'
        assert _installed[0], 'detsched.install() was not called'
        me = self._new_rec('main')
        me.state = RUNNABLE
        me.ident = _real_get_ident()
        _by_ident[_real_get_ident()] = me
        self.active = True
        heartbeat['active'] = True
        heartbeat['t'] = _real_monotonic()
        result = exc = None
        try:
            try:
                result = fn()
            except SimAbort:
                exc = None
            except BaseException as e:  # scenario failure (assertion etc.)
                exc = e
            self.main_done_at = self.now
            # drain: let the other threads run to completion
            try:
                if not self.aborting:
                    self.draining = True
                    self.block_until(
                        lambda: all(t.state == DONE for t in self.threads if t is not me), None, what='drain'
                    )
            except SimAbort:
                pass
            # abort mode: make sure everybody is gone
            if self.aborting:
                self._abort_others(me)
        finally:
            self.active = False
            heartbeat['active'] = False
            del _by_ident[_real_get_ident()]
        return result, exc

    def _abort_others(self, me):
        while True:
            pending = [t for t in self.threads if t is not me and t.state != DONE]
            if not pending:
                return
            t = pending[0]
            t.gate.release()
            me.gate.acquire()

    # ---- the scheduler proper; always executed by the baton holder `me`
    def _enabled(self):
        out = []
        for t in self.threads:
            if t.state == RUNNABLE:
                out.append(t)
            elif t.state == BLOCKED:
                if t.pred():
                    out.append(t)
        return out

    def _reschedule(self, me):
        """me has set its own state (RUNNABLE/BLOCKED/DONE). Pick next, hand over baton, wait for own turn."""
        if self.aborting:
            self._abort_step(me)
            return
        self.in_sched = True
        try:
            self._reschedule_inner(me)
        finally:
            # whoever holds the baton when control returns to user code clears the flag
            # (a finished thread no longer holds it: the thread it handed over to clears it)
            if me.state != DONE:
                self.in_sched = False

    def _reschedule_inner(self, me):
        self.steps += 1
        heartbeat['t'] = _real_monotonic()
        if self.on_step is not None:
            self.on_step(self)
        while True:
            enabled = self._enabled()
            timed = [t for t in self.threads if t.state == BLOCKED and t.deadline is not None and t not in enabled]
            if self.steps > self.max_steps:
                # the step budget ran out. If virtual time has not moved for a very long stretch of steps (two orders of magnitude
                # beyond what whole cases take), threads are spinning through scheduling points without ever waiting: a livelock
                spinning = self.steps - self.last_idle_step >= LIVELOCK_STEPS
                self._start_abort('livelock' if spinning else 'steps', me)
                return
            if enabled and timed and self.steps - self.last_advance_step >= SPIN_ADVANCE:
                # somebody has been running through scheduling points for a long time without anybody waiting (busy polling):
                # on a real machine time passes meanwhile, so the earliest timer fires
                self._advance(timed)
                if self.now > self.horizon:
                    self._start_abort('horizon', me)
                    return
                continue
            if not enabled:
                if not timed:
                    self._start_abort('deadlock', me)
                    return
                self.last_idle_step = self.steps
                self._advance(timed)
                if self.now > self.horizon:
                    self._start_abort('horizon', me)
                    return
                continue
            if self.expiry_last:
                # schedule modifier: a thread whose timed wait (not a sleep) has expired gets the processor only after the others
                # have run out of things to do at this instant - the order in which an expiry is acted upon with stale knowledge
                fresh = [t for t in enabled if not (t.timed_out and t.what != 'sleep')]
                if fresh:
                    enabled = fresh
            stallable = []
            if timed and self.max_stall > 0:
                d = min(t.deadline for t in timed) - self.now
                if d <= self.max_stall and self.stall_used + d <= self.stall_budget:
                    stallable = timed
            if len(enabled) == 1 and not stallable:
                choice = enabled[0]
            elif self.streak >= SPIN_ADVANCE and any(t is not me for t in enabled):
                # fairness: no real scheduler lets one thread keep the processor forever while others are ready
                choice = min((t for t in enabled if t is not me), key=lambda t: t.last_run)
            else:
                self.branchings += 1
                choice = self.chooser(self, me, enabled, stallable)
            if choice == 'TIME':
                if stallable:
                    before = self.now
                    self._advance(timed)
                    self.stall_used += self.now - before
                    self.trace.append(-1)
                    continue
                choice = me if me in enabled else enabled[0]
            break
        nxt = choice
        self.trace.append(nxt.idx)
        self.streak = self.streak + 1 if nxt is me else 0
        nxt.last_run = self.steps
        if nxt.state == BLOCKED:
            nxt.timed_out = False
            nxt.state = RUNNABLE
        if nxt is me:
            return
        self.switches += 1
        nxt.gate.release()
        if me.state != DONE:
            me.gate.acquire()
            if self.aborting:
                raise SimAbort

    def _advance(self, timed):
        d = min(t.deadline for t in timed)
        if d > self.now:
            self.now = d
        self.last_advance_step = self.steps
        for t in timed:
            if t.deadline <= self.now:
                t.timed_out = True
                t.state = RUNNABLE
                t.pred = None
                t.deadline = None

    def _start_abort(self, verdict, me):
        if self.draining and verdict in ('deadlock', 'horizon', 'livelock'):
            verdict = 'leak:' + verdict
        self.verdict = verdict
        frames = sys._current_frames()
        rep = []
        for t in self.threads:
            if t.state == DONE:
                continue
            if self.draining and t.idx == 0:
                continue
            fr = frames.get(t.ident)
            site = _innermost_pkg_frame(fr) if fr is not None else None
            rep.append({'idx': t.idx, 'name': t.name, 'state': t.state, 'what': t.what, 'site': site})
        self.blocked_report = rep
        self.aborting = True
        self._abort_step(me)

    def signature(self):
        """(verdict kind, sorted set of (file, function) where unfinished threads sit)"""
        if self.verdict is None:
            return None
        sites = sorted({(r['site'][0], r['site'][1]) if r['site'] else ('?', r['name'].split('-')[0]) for r in (self.blocked_report or [])})
        return [self.verdict, [list(s) for s in sites]]

    def _abort_step(self, me):
        # In abort mode the baton goes: non-main threads in index order, main last.
        main = self.threads[0]
        if me.state == DONE:
            pending = [t for t in self.threads if t.state != DONE and t is not main]
            nxt = pending[0] if pending else main
            nxt.gate.release()
            return
        raise SimAbort

    # ---- operations used by primitives
    def yield_point(self, what=''):
        me = cur()
        if self.aborting:
            raise SimAbort
        me.state = RUNNABLE
        me.what = what
        self._reschedule(me)

    def flip(self):
        """k-th binary decision that is not a thread choice (so far: expiry-vs-release races of timed lock waits)"""
        i = self.nflips
        self.nflips += 1
        bits = self.flip_bits
        r = bool(bits[i]) if i < len(bits) else False
        if r:
            self.flips_taken += 1
        return r

    def block_until(self, pred, deadline, what='', positive=False):
        """Returns True if pred became true, False if deadline expired."""
        me = cur()
        if self.aborting:
            raise SimAbort
        if deadline is not None and deadline <= self.now:
            if positive:
                deadline = math.nextafter(self.now, math.inf)
            else:
                # zero/negative timeout: still a scheduling point
                me.state = RUNNABLE
                self._reschedule(me)
                return bool(pred())
        me.state = BLOCKED
        me.pred = pred
        me.deadline = deadline
        me.timed_out = False
        me.what = what
        self._reschedule(me)
        to = me.timed_out
        me.pred = None
        me.deadline = None
        me.timed_out = False
        return not to

    # ---- thread lifecycle
    def start_thread(self, func, args, kwargs):
        thread_obj = getattr(func, '__self__', None)
        rec = self._new_rec(getattr(thread_obj, 'name', 'anon'))
        rec.thread = thread_obj
        if thread_obj is not None:
            thread_obj._sim_rec = rec
        self.max_threads = max(self.max_threads, sum(1 for t in self.threads if t.state != DONE))

        def boot():
            rec.gate.acquire()  # wait for first turn
            self.in_sched = False
            rec.ident = _real_get_ident()
            _by_ident[rec.ident] = rec
            try:
                if not self.aborting:
                    rec.state = RUNNABLE
                    try:
                        func(*args, **kwargs)
                    except SimAbort:
                        pass
            finally:
                rec.state = DONE
                rec.what = ''
                del _by_ident[rec.ident]
                try:
                    self._reschedule(rec)
                except SimAbort:
                    pass

        rec.state = RUNNABLE  # eligible to be scheduled for its first turn
        ident = _real_start_new_thread(boot, ())
        return ident


# ---------------------------------------------------------------- hybrid primitives


LIVELOCK_STEPS = 100_000
SPIN_ADVANCE = 20_000

CASE_STATS = {'flip_points': 0, 'flips_taken': 0}  # accumulated by run_sim, read and reset per case by the shard


class HLock:
    __slots__ = ('_l', '__weakref__')

    def __init__(self):
        self._l = _real_allocate()

    def acquire(self, blocking=True, timeout=-1):
        me = cur()
        if me is None:
            return self._l.acquire(blocking, timeout)
        sim = me.sim
        if sim.aborting:
            # unwinding: never block, pretend success so `with` blocks unwind without RuntimeError
            self._l.acquire(False)
            return True
        sim.yield_point('acq')
        if self._l.acquire(False):
            return True
        if not blocking:
            return False
        deadline = None if (timeout is None or timeout < 0) else sim.now + timeout
        locked = self._l.locked
        while True:
            ok = sim.block_until(
                lambda: not locked(), deadline, what='lock', positive=(deadline is not None and timeout > 0)
            )
            if not ok and not locked() and sim.flip():
                # The wait expired while the lock was held, and the lock has been released since (at the same virtual instant or
                # during a stall). A real timed acquire (sem_clockwait) reports failure in that order and success in the opposite
                # order, so both outcomes exist: the schedule's `flips` bits choose (default: the release won).
                return False
            if self._l.acquire(False):
                return True
            if not ok:
                return False

    __enter__ = acquire

    def release(self):
        me = cur()
        if me is not None and me.sim.aborting:
            try:
                self._l.release()
            except RuntimeError:
                pass
            return
        self._l.release()
        if me is not None:
            me.sim.yield_point('rel')

    def __exit__(self, *a):
        self.release()

    def locked(self):
        return self._l.locked()

    def _at_fork_reinit(self):
        self._l._at_fork_reinit()

    def __repr__(self):
        return f'<HLock {self._l!r}>'


def h_sleep(d):
    me = cur()
    if me is None:
        return _real_sleep(d)
    me.sim.block_until(lambda: False, me.sim.now + max(0.0, d), what='sleep', positive=d > 0)


def _sim_now(sim):
    if sim.creep:
        # optional: every clock read moves the virtual clock by one ulp, like a real clock that never stands still.
        # Needed where code under test polls "remaining = total - (now - t0)" down to residues that float arithmetic
        # absorbs (a virtual clock that only moves when everybody is blocked would spin forever at one instant).
        sim.now = math.nextafter(sim.now, math.inf)
    return sim.now


def h_monotonic():
    me = cur()
    return _real_monotonic() if me is None else _sim_now(me.sim)


def h_perf_counter():
    me = cur()
    return _real_perf_counter() if me is None else _sim_now(me.sim)


def h_time():
    me = cur()
    return _real_time() if me is None else _sim_now(me.sim)


def h_start_new_thread(func, args, kwargs={}):
    me = cur()
    if me is None:
        return _real_start_new_thread(func, args, kwargs)
    return me.sim.start_thread(func, args, kwargs)


_orig_wait_for_tstate_lock = threading.Thread._wait_for_tstate_lock


def h_wait_for_tstate_lock(self, block=True, timeout=-1):
    me = cur()
    rec = getattr(self, '_sim_rec', None)
    if me is None or rec is None:
        if rec is not None and rec.state != DONE and rec.sim.active:
            # a non-sim thread asking about a sim thread: do not block for real
            return
        return _orig_wait_for_tstate_lock(self, block, timeout)
    sim = me.sim
    if sim.aborting:
        raise SimAbort
    if not block:
        if rec.state == DONE:
            return _orig_wait_for_tstate_lock(self, True, -1)
        return  # still alive
    deadline = None if (timeout is None or timeout < 0) else sim.now + timeout
    sim.yield_point('join')
    if rec.state != DONE:
        sim.block_until(lambda: rec.state == DONE, deadline, what=f'join T{rec.idx}')
    if rec.state == DONE:
        return _orig_wait_for_tstate_lock(self, True, -1)


def install():
    """Must run before importing anything that creates module-level locks we care about."""
    if _installed[0]:
        return
    _installed[0] = True
    threading.Lock = HLock
    threading._allocate_lock = HLock
    threading._CRLock = None  # RLock() -> _PyRLock built on _allocate_lock
    threading._start_new_thread = h_start_new_thread
    threading.Thread._wait_for_tstate_lock = h_wait_for_tstate_lock
    time.sleep = h_sleep
    time.monotonic = h_monotonic
    time.perf_counter = h_perf_counter
    time.time = h_time
    threading._time = h_monotonic
    queue.time = h_monotonic
    queue.SimpleQueue = queue._PySimpleQueue


def start_watchdog(limit_s=120.0, label=''):
    """Real-time guard for the harness itself: exits 2 if a simulation makes no step for limit_s."""

    def dog():
        while True:
            _real_sleep(2.0)
            if heartbeat['active'] and _real_monotonic() - heartbeat['t'] > limit_s:
                sys.stderr.write(
                    f'HARNESS-ERROR watchdog: simulation made no step for {limit_s}s {label} {heartbeat["info"]}\n'
                )
                sys.stderr.flush()
                os._exit(2)

    _real_start_new_thread(dog, ())


# ---------------------------------------------------------------- choosers


def default_choice(me, enabled):
    return me if me in enabled else enabled[0]


def tape_chooser(tape):
    """i-th branching decision picks by tape[i]: 0 => default policy (stay on the current thread if enabled,
    else lowest index); v>0 => option (v-1) mod k among enabled (+TIME when a bounded stall is allowed).
    After the tape is exhausted the default policy runs the rest."""
    pos = [0]

    def choose(sim, me, enabled, timed):
        if pos[0] < len(tape):
            v = tape[pos[0]]
            pos[0] += 1
            if v == 0:
                return default_choice(me, enabled)
            opts = list(enabled)
            if timed:
                opts.append('TIME')
            return opts[(v - 1) % len(opts)]
        return default_choice(me, enabled)

    return choose


def pct_chooser(prios, change_points, stall_points=()):
    """Probabilistic-concurrency-testing style: thread i has priority prios[i % len]; at the given
    step numbers the running thread drops below everybody; at stall points time is forced forward."""
    prio = {}
    change = sorted(change_points)
    stalls = sorted(stall_points)
    low = [0]
    n = len(prios)

    def choose(sim, me, enabled, timed):
        for t in enabled:
            if t.idx not in prio:
                prio[t.idx] = prios[t.idx % n] + 1 + t.idx * 1e-6
        while change and sim.steps >= change[0]:
            change.pop(0)
            low[0] -= 1
            if me in enabled:
                prio[me.idx] = low[0]
        if stalls and sim.steps >= stalls[0]:
            stalls.pop(0)
            if timed:
                return 'TIME'
        return max(enabled, key=lambda t: prio[t.idx])

    return choose


def sparse_chooser(pre):
    """pre: list of [branching index, choice>=1]; default policy everywhere else"""
    table = {}
    for pos, ch in pre:
        table.setdefault(pos, ch)
    idx = [0]

    def choose(sim, me, enabled, timed):
        i = idx[0]
        idx[0] += 1
        v = table.get(i)
        if v is None:
            return default_choice(me, enabled)
        opts = list(enabled)
        if timed:
            opts.append('TIME')
        return opts[(v - 1) % len(opts)]

    return choose


def make_chooser(sched):
    """sched is a JSON-able dict produced by vf.sched_strategies."""
    kind = sched.get('kind', 'default')
    if kind == 'default':
        return tape_chooser([])
    if kind == 'tape':
        return tape_chooser(sched['tape'])
    if kind == 'sparse':
        return sparse_chooser(sched['pre'])
    if kind == 'pct':
        return pct_chooser(sched['prios'], sched['changes'], sched.get('stalls', ()))
    raise ValueError(kind)
