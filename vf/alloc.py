"""A legal-but-adversarial stand-in for the builtin ``id``.

``id(obj)`` promises only that the number is unique among objects alive at the same time; the number of an
object that has been freed may be handed to a later object. CPython's allocator recycles addresses when it
pleases, which makes defects that depend on it (a table keyed by ``id`` whose entry outlives - or is dropped
before - the thing it names) a matter of luck. ``Alloc`` keeps the promise and owns the luck: whether a freed
number is reused is read from generated bits. It is installed by assigning it to the name ``id`` in the
namespace of the module under test, never in ``builtins``.
"""
import _thread
import weakref


class Alloc:
    """legal object-identity allocator: unique among live objects, but may recycle the id of a freed object (driven by generated bits)"""

    def __init__(self, bits, start=1000):
        self.bits = list(bits)
        self.pos = 0
        self.live = {}  # id -> weakref
        self.freed = []
        self.next = start
        self.recycled = 0
        self.by_obj = weakref.WeakKeyDictionary()
        self._mu = _thread.RLock()  # real lock, never a scheduling point: the substitute is as atomic as the builtin

    def __call__(self, obj):
        with self._mu:
            return self._id(obj)

    def _id(self, obj):
        try:
            if obj in self.by_obj:
                return self.by_obj[obj]
        except TypeError:
            return id(obj)
        # collect freed ids
        for i, r in list(self.live.items()):
            if r() is None:
                del self.live[i]
                self.freed.append(i)
        use_old = False
        if self.freed:
            b = self.bits[self.pos % len(self.bits)] if self.bits else 0
            self.pos += 1
            use_old = bool(b)
        if use_old:
            i = self.freed.pop(0)
            self.recycled += 1
        else:
            i = self.next
            self.next += 1
        try:
            self.live[i] = weakref.ref(obj)
            self.by_obj[obj] = i
        except TypeError:
            return id(obj)
        return i
