"""Line-granular preemption points via sys.monitoring (DESIGN 2.5)."""
import sys

from . import detsched as ds

TOOL = 4
_targets = set()
_on = [False]
_installed = [False]


def _cb(code, line):
    try:
        if code.co_filename not in _targets:
            return sys.monitoring.DISABLE
    except TypeError:  # interpreter shutdown
        return None
    if _on[0]:
        me = ds.cur()
        if me is not None and not me.sim.aborting and not me.sim.in_sched:
            me.sim.yield_point(f'line {line}')


def install(files):
    """files: absolute file names whose every executed line becomes a scheduling point while enabled."""
    _targets.update(files)
    if not _installed[0]:
        sys.monitoring.use_tool_id(TOOL, 'detsched-lines')
        sys.monitoring.register_callback(TOOL, sys.monitoring.events.LINE, _cb)
        sys.monitoring.set_events(TOOL, sys.monitoring.events.LINE)
        _installed[0] = True
    else:
        sys.monitoring.restart_events()


def enable(flag=True):
    _on[0] = bool(flag)
