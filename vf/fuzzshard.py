"""Coverage-guided fuzzing shard (thorough-tier extra for the pure families): atheris/libFuzzer drives the family's Hypothesis
strategy through `fuzz_one_input`, so the bytes chosen by the fuzzer are decoded into the same structured cases, and the same
oracle (`Family.run`) decides.

usage: python -m vf.fuzzshard '<json spec>'     spec = {prop, family, seconds, seed, out, modules: [names to instrument]}
"""
import json
import os
import sys
import time

ROOT = os.path.dirname(os.path.dirname(os.path.abspath(__file__)))


def main():
    spec = json.loads(sys.argv[1])
    out = {'prop': spec['prop'], 'family': spec['family'], 'evaluations': 0, 'nontrivial': [], 'classes': {}, 'metrics': {}, 'samples': [], 'inconclusive': 0,
           'skipped_budget': 0, 'excluded_known': {}, 'violations': [], 'unconfirmed': [], 'harness_errors': [], 'rule': 'atheris (coverage-guided) over the family strategy via fuzz_one_input', 'fuzz': True}

    def flush():
        out['nontrivial'] = sorted(nontrivial)
        with open(spec['out'], 'w') as f:
            json.dump(out, f, default=repr)

    nontrivial = set()
    try:
        import atheris
    except Exception as e:  # not installed: the extra is skipped, never an error
        out['skipped_reason'] = f'atheris not importable: {e}'
        flush()
        return 0
    import importlib

    with atheris.instrument_imports(include=spec.get('modules') or ['mpservice']):
        import mpservice  # noqa: F401

        for m in spec.get('modules') or []:
            importlib.import_module(m)
    from hypothesis import HealthCheck, given, settings

    from vf import findings as kf
    from vf.core import Inconclusive, Violation, dhash, jsonable

    mod = importlib.import_module('props.' + spec['prop'].lower())
    fam = {f.name: f for f in mod.FAMILIES}[spec['family']]
    known = kf.load()
    t_end = time.monotonic() + float(spec['seconds'])
    state = {'n': 0}

    @settings(database=None, deadline=None, suppress_health_check=list(HealthCheck))
    @given(fam.strategy)
    def test(params):
        state['n'] += 1
        out['evaluations'] += 1
        try:
            info = fam.run(params)
        except Inconclusive:
            out['inconclusive'] += 1
            return
        except Violation as v:
            m = kf.match(known, spec['prop'], fam.name, v, params)
            if m is not None:
                out['excluded_known'][m['id']] = out['excluded_known'].get(m['id'], 0) + 1
                return
            # confirm, record, stop
            try:
                fam.run(params)
            except Violation as v2:
                d = os.path.join(ROOT, 'replays', 'found')
                os.makedirs(d, exist_ok=True)
                path = os.path.join(d, f"{spec['prop']}_{fam.name}_fuzz_{dhash([params, v2.clause])}.json")
                rec = {'property': spec['prop'], 'family': fam.name, 'params': params, 'clause': v2.clause, 'detail': v2.detail[:4000], 'signature': v2.signature, 'source': 'atheris', 'replay': path}
                with open(path, 'w') as f:
                    json.dump(rec, f, indent=1, default=repr)
                out['violations'].append(rec)
                flush()
                sys.stdout.flush()
                os._exit(0)
            except BaseException:
                out['unconfirmed'].append({'family': fam.name, 'clause': v.clause, 'detail': v.detail[:300], 'params': params})
            return
        if info is not None and info.nontrivial:
            h = dhash(info.descriptor if info.descriptor is not None else params)
            if h not in nontrivial:
                nontrivial.add(h)
                if len(out['samples']) < 2:
                    out['samples'].append(jsonable(info.sample if info.sample is not None else params))
            for c in info.classes:
                out['classes'][c] = out['classes'].get(c, 0) + 1
        if state['n'] % 500 == 0:
            flush()
        if time.monotonic() > t_end:
            flush()
            sys.stdout.flush()
            os._exit(0)

    corpus = spec['out'] + '.corpus'
    os.makedirs(corpus, exist_ok=True)
    atheris.Setup([sys.argv[0], corpus, f"-seed={int(spec.get('seed', 1)) or 1}", f"-max_total_time={int(spec['seconds']) + 30}", '-max_len=4096', '-print_final_stats=1'], test.hypothesis.fuzz_one_input)
    flush()
    atheris.Fuzz()
    flush()
    return 0


if __name__ == '__main__':
    try:
        rc = main()
    except BaseException as e:  # a broken extra must not break the check
        try:
            spec = json.loads(sys.argv[1])
            with open(spec['out'], 'w') as f:
                json.dump({'prop': spec['prop'], 'family': spec['family'], 'evaluations': 0, 'nontrivial': [], 'classes': {}, 'metrics': {}, 'samples': [], 'inconclusive': 0, 'skipped_budget': 0,
                           'excluded_known': {}, 'violations': [], 'unconfirmed': [], 'harness_errors': [], 'rule': '', 'fuzz': True, 'skipped_reason': f'{type(e).__name__}: {e}'}, f)
        except Exception:
            pass
        rc = 0
    sys.stdout.flush()
    os._exit(rc)
