"""Real-process case runner (DESIGN 2.8): wall-clock watchdog, 3x reproduced hang rule, child reaping."""
import os
import threading
import time

from .core import Inconclusive, Violation

_HANG = object()


def reap_children(grace=0.5):
    try:
        import psutil
    except Exception:
        return 0
    me = psutil.Process(os.getpid())
    kids = []
    for k in me.children(recursive=True):
        try:
            if 'resource_tracker' in ' '.join(k.cmdline()):
                continue  # multiprocessing's own helper of this (long-lived) shard process
        except Exception:
            pass
        kids.append(k)
    for k in kids:
        try:
            k.terminate()
        except Exception:
            pass
    gone, alive = psutil.wait_procs(kids, timeout=grace)
    for k in alive:
        try:
            k.kill()
        except Exception:
            pass
    psutil.wait_procs(alive, timeout=2)
    return len(kids)


def live_children():
    """child processes other than multiprocessing's resource tracker"""
    try:
        import psutil
    except Exception:
        return []
    out = []
    for k in psutil.Process(os.getpid()).children(recursive=True):
        try:
            cmd = ' '.join(k.cmdline())
            if 'resource_tracker' in cmd:
                continue
            if k.status() == psutil.STATUS_ZOMBIE:
                continue
            out.append((k.pid, cmd[-80:]))
        except Exception:
            pass
    return out


HANG_DUMPS = []  # texts of the thread dumps taken at suspected hangs in this process (the last few)


def _dump_stacks(budget_s):
    """where every thread of this process is when a case exceeds its budget: goes into the detail of a hang violation"""
    try:
        import sys
        import traceback

        names = {t.ident: t.name for t in threading.enumerate()}
        parts = []
        for ident, frame in sys._current_frames().items():
            stack = traceback.extract_stack(frame)[-6:]
            parts.append(f"[{names.get(ident, ident)}] " + ' <- '.join(f'{os.path.basename(f.filename)}:{f.lineno}:{f.name}' for f in reversed(stack)))
        HANG_DUMPS.append(f'after {budget_s}s: ' + ' || '.join(parts))
        del HANG_DUMPS[:-3]
    except Exception:
        pass


def _run_once(case, budget_s):
    box = {}

    def runner():
        try:
            box['result'] = case()
        except BaseException as e:
            e.__traceback__ = None  # do not keep the case's frames (and the objects in them) alive
            box['exc'] = e

    t = threading.Thread(target=runner, daemon=True, name='case-runner')
    t.start()
    t.join(budget_s)
    if t.is_alive():
        _dump_stacks(budget_s)
        return _HANG, None
    return box.get('result'), box.get('exc')


def run_with_watchdog(case, budget_s=60.0, what='', hang_retries=2, hang_is_violation=True, signature=None):
    """Run case() under a wall-clock watchdog. A watchdog hit is a *suspected* hang: the case is re-run with a
    doubled budget; only if every attempt hangs is it a violation (clause 'hang'), otherwise inconclusive."""
    hangs = 0
    for attempt in range(hang_retries + 1):
        res, exc = _run_once(case, budget_s * (2**attempt))
        if res is _HANG:
            hangs += 1
            reap_children()
            continue
        if hangs:
            raise Inconclusive(f'{what}: hung {hangs}x then completed')
        if exc is not None:
            raise exc
        return res
    if hang_is_violation:
        raise Violation('hang', f'{what}: did not finish within {budget_s}s, {budget_s*2}s, {budget_s*4}s (3 attempts); threads at the last expiry: {HANG_DUMPS[-1][:3000] if HANG_DUMPS else "?"}', signature=signature or ['hang', what])
    raise Inconclusive(f'{what}: hung')
