"""C08 - bounded look-ahead (capacity+3 / n+2) and bounded concurrency while a stream is consumed."""
from hypothesis import strategies as st

from vf.core import CaseInfo, Family, Violation, hang_check, run_sim, sched_strategy
from vf.detsched import SimAbort, cur

from . import streamlib as sl

ASSUMPTIONS = [
    'look-ahead = elements successfully produced by the instrumented source minus elements received by the consumer, evaluated at every '
    'scheduling step while the consumer is consuming (the window closes when the consumer initiates the stop or receives a failure)',
    'running invocations = enter/exit counter inside the worker function, evaluated at every scheduling step',
    'detsched preemption granularity; virtual durations',
]

SPEED = st.sampled_from([[0.0], [0.0], [0.001], [0.01], [0.05], [0.0, 0.02], [0.003, 0.0, 0.03]])


@st.composite
def spec_strategy(draw):
    spec = {}
    nst = draw(st.sampled_from([1, 1, 1, 2, 2, 3]))
    stages = []
    bound = 0
    for i in range(nst):
        op = draw(st.sampled_from(['buffer', 'parmap', 'parmap', 'parmap_async', 'fifo', 'map']))
        if op == 'map' and i == nst - 1 and not any(s['op'] != 'map' for s in stages):
            op = 'parmap'
        if op == 'buffer':
            m = draw(st.sampled_from([1, 1, 2, 3, 4, 6]))
            stages.append({'op': 'buffer', 'maxsize': m})
            bound += m + 2
        elif op in ('parmap', 'parmap_async'):
            c = draw(st.sampled_from([1, 1, 2, 2, 3, 4]))
            stages.append({'op': op, 'c': c, 'delays': draw(SPEED), 'fail': [], 'rexc': True})
            bound += 2 * c + 3
        elif op == 'fifo':
            cap = draw(st.sampled_from([1, 1, 2, 3, 4, 6]))
            pool = draw(st.sampled_from([1, 2, 3]))
            stages.append({'op': 'fifo', 'capacity': cap, 'pool': pool, 'delays': draw(SPEED)})
            bound += cap + 3
        else:
            stages.append({'op': 'map', 'delays': [0.0], 'fail': []})
    spec['stages'] = stages
    spec['bound'] = bound
    spec['unbounded'] = draw(st.booleans())
    cap_like = max(1, bound)
    spec['n'] = draw(st.integers(0, min(80, 10 * cap_like)))
    spec['src_delays'] = draw(SPEED)
    # (the last two: a consumer that stalls longer than any internal timeout of the hand-off queues)
    spec['cons_delays'] = draw(st.sampled_from([[0.0], [0.0], [0.01], [0.1], [0.5], [0.0, 0.2], [3.0], [0.0, 0.0, 2.5]]))
    if spec['unbounded']:
        spec['consume'] = {'kind': 'close', 'at': draw(st.integers(0, 60))}
    else:
        kind = draw(st.sampled_from(['all', 'all', 'close']))
        spec['consume'] = {'kind': kind, 'at': draw(st.integers(0, spec['n'] + 1)) if kind != 'all' else 0}
    # after an early stop the same Stream object is iterated again at once: the bounds hold across the two passes
    spec['reiterate'] = spec['consume']['kind'] != 'all' and not spec['unbounded'] and draw(st.booleans())
    spec['sched'] = draw(sched_strategy(max_len=200, est_steps=3000, depth=4))
    return spec


def build(spec, src, log):
    """like streamlib.build_stream but also supports a bare fifo_stream stage"""
    from mpservice.concurrent.futures import ThreadPoolExecutor
    from mpservice.streamer import Stream, fifo_stream

    cleanup = []
    it = src
    idx0 = 0
    s = Stream(src)
    for idx, stg in enumerate(spec['stages']):
        if stg['op'] == 'fifo':
            pool = ThreadPoolExecutor(stg['pool'])
            cleanup.append(pool)
            fn = sl.stage_fn(stg, idx, log)

            def func(x, pool=pool, fn=fn):
                return pool.submit(fn, x, loud_exception=False)

            prev = s

            class _Fifo:
                def __init__(self, prev, func, cap):
                    self.prev, self.func, self.cap = prev, func, cap

                def __iter__(self):
                    return fifo_stream(self.prev, self.func, capacity=self.cap)

            s = Stream(_Fifo(prev, func, stg['capacity']))
        else:
            sub = {'stages': [stg]}
            # build_stream indexes stages from 0; keep global index for the log
            if stg['op'] == 'map':
                s.map(sl.stage_fn(stg, idx, log))
            elif stg['op'] == 'buffer':
                s.buffer(stg['maxsize'])
            elif stg['op'] == 'parmap':
                s.parmap(sl.stage_fn(stg, idx, log), executor='thread', concurrency=stg['c'], return_exceptions=True)
            elif stg['op'] == 'parmap_async':
                s.parmap(sl.stage_afn(stg, idx, log), concurrency=stg['c'], return_exceptions=True)
    return s, cleanup


def run_case(spec):
    log = []
    src = sl.Source(spec['n'], None, spec['src_delays'], unbounded=spec['unbounded'])
    box = {'consuming': False, 'handed': 0, 'max_ahead': 0, 'max_running': {}, 'bad_ahead': None, 'bad_running': None, 'log_pos': 0, 'running': {}}
    limits = {}
    for idx, stg in enumerate(spec['stages']):
        if stg['op'] in ('parmap', 'parmap_async'):
            limits[idx] = stg['c']
        elif stg['op'] == 'fifo':
            limits[idx] = stg['pool']
    bound = spec['bound']

    def on_step(sim):
        # running counters from the log (incremental)
        pos = box['log_pos']
        running = box['running']
        while pos < len(log):
            k, idx, _ = log[pos]
            running[idx] = running.get(idx, 0) + (1 if k == 'enter' else -1)
            pos += 1
            r = running[idx]
            if r > box['max_running'].get(idx, 0):
                box['max_running'][idx] = r
            if idx in limits and r > limits[idx] and box['bad_running'] is None:
                box['bad_running'] = (idx, r, limits[idx], sim.steps)
        box['log_pos'] = pos
        if box['consuming']:
            ahead = src.pulled - box['handed']
            if ahead > box['max_ahead']:
                box['max_ahead'] = ahead
            if ahead > bound and box['bad_ahead'] is None:
                box['bad_ahead'] = (ahead, src.pulled, box['handed'], sim.steps)

    def scenario():
        import time

        s, cleanup = build(spec, src, log)
        it = iter(s)
        cons = spec['consume']
        delays = spec['cons_delays']
        outs = 0
        err = None
        box['consuming'] = True
        try:
            if not (cons['kind'] != 'all' and cons['at'] == 0):
                for x in it:
                    box['handed'] += 1
                    outs += 1
                    d = delays[(outs - 1) % len(delays)]
                    if d > 0:
                        time.sleep(d)
                    if cons['kind'] != 'all' and outs >= cons['at']:
                        break
        except SimAbort:
            raise
        except BaseException as e:
            err = e
        finally:
            box['consuming'] = False
        it.close()
        if spec.get('reiterate') and err is None:
            # second pass over the same stream object, started right after the early stop
            box['handed'] = src.pulled
            box['consuming'] = True
            try:
                for x in s:
                    box['handed'] += 1
                    outs += 1
            except SimAbort:
                raise
            except BaseException as e:
                err = e
            finally:
                box['consuming'] = False
        for p in cleanup:
            p.shutdown()
        return outs, err

    out = run_sim(scenario, spec['sched'], horizon=3600.0, max_steps=600_000, on_step=on_step)
    hang_check(out)
    if out.exc is not None:
        raise Violation('scenario_exception', f'{type(out.exc).__name__}: {out.exc}', signature=['exc', type(out.exc).__name__])
    outs, err = out.result
    if err is not None:
        raise Violation('unexpected_error', f'{type(err).__name__}: {err}', signature=['err', type(err).__name__])
    if box['bad_ahead'] is not None:
        a, p, h, step = box['bad_ahead']
        kinds = '+'.join(s['op'] for s in spec['stages'] if s['op'] != 'map')
        raise Violation('lookahead', f'pulled {p} - handed {h} = {a} > bound {bound} at step {step} (stages {spec["stages"]})', signature=['lookahead', kinds])
    for idx, lim in sorted(limits.items(), key=lambda kv: spec['stages'][kv[0]]['op'] == 'parmap_async'):
        r = box['max_running'].get(idx, 0)
        if r > lim:
            op = spec['stages'][idx]['op']
            # the coroutine variant is known to run up to capacity+3 = 2c+3 (known finding); anything beyond is a different defect
            clause = 'concurrency'
            if op == 'parmap_async' and r > 2 * lim + 3:
                clause = 'concurrency_gross'
            raise Violation(clause, f"stage {idx} ({op}): {r} invocations running > limit {lim}", signature=[clause, op])
    attained = box['max_ahead'] == bound
    kinds = '+'.join(s['op'] for s in spec['stages'] if s['op'] != 'map')
    return CaseInfo(
        nontrivial=box['max_ahead'] >= max(1, bound - 3) or attained,
        descriptor=[spec['stages'], spec['n'], spec['unbounded'], spec['consume'], spec['src_delays'], spec['cons_delays'], box['max_ahead']],
        classes=(kinds, 'attained' if attained else f"slack{min(bound - box['max_ahead'], 4)}", 'unbounded' if spec['unbounded'] else 'finite', 'reiterated' if spec.get('reiterate') else 'single_pass'),
        metrics={f"ahead_minus_bound[{kinds if '+' not in kinds else 'chain'}]": box['max_ahead'] - bound, 'steps': out.sim.steps, 'max_ahead': box['max_ahead']},
        sample={'stages': spec['stages'], 'n': spec['n'], 'unbounded': spec['unbounded'], 'bound': bound, 'max_ahead': box['max_ahead'], 'max_running': box['max_running'], 'outs': outs},
    )


def _warm():
    spec = {
        'stages': [{'op': 'buffer', 'maxsize': 2}, {'op': 'parmap', 'c': 2, 'delays': [0.001], 'fail': [], 'rexc': True}, {'op': 'parmap_async', 'c': 1, 'delays': [0.001], 'fail': [], 'rexc': True}, {'op': 'fifo', 'capacity': 2, 'pool': 2, 'delays': [0.0]}],
        'bound': 4 + 7 + 5 + 5, 'unbounded': False, 'n': 6, 'src_delays': [0.0], 'cons_delays': [0.0], 'consume': {'kind': 'all', 'at': 0}, 'sched': {'kind': 'default'},
    }
    for _ in range(2):
        run_case(spec)


RULE = (
    'chains of 1-3 stages from buffer(n) / parmap(thread, c) / parmap(coroutine, c) / bare fifo_stream(capacity) over a thread pool / map, with generated speed '
    'ratios of source, workers and consumer (incl. instantaneous source + slow consumer), finite sources up to 10x capacity and unbounded sources cut at k<=60, '
    'schedule default/tape/PCT. Invariants at every scheduling step: pulled-handed <= sum of per-stage bounds (capacity+3, 2c+3, n+2) while consuming; running <= concurrency. '
    'Non-trivial: max observed look-ahead within 3 of the bound (attained counted separately); distinct by (stages, n, speeds, consumer, max look-ahead).'
)

# ------------------------------------------------------------------ F2: real worker processes


@st.composite
def proc_spec(draw):
    c = draw(st.sampled_from([1, 2, 2, 3]))
    return {'c': c, 'n': draw(st.integers(6 * c, 10 * c)), 'delay_ms': draw(st.sampled_from([80, 150, 250]))}


def run_proc(spec):
    from vf.realproc import reap_children, run_with_watchdog

    from . import targets

    def case():
        from mpservice.streamer import Stream

        return list(Stream(range(spec['n'])).parmap(targets.proc_stamp, executor='process', concurrency=spec['c'], delay_ms=spec['delay_ms']))

    try:
        res = run_with_watchdog(case, budget_s=30, what='parmap(process) concurrency', signature=['hang', 'process_concurrency'])
    finally:
        reap_children()
    if [r[0] for r in res] != list(range(spec['n'])):
        raise Violation('outputs', f'order/content of results wrong: {[r[0] for r in res]}', signature=['outputs', 'process'])
    pids = sorted({r[1] for r in res})
    # invocations running at once: sweep over the (start, end) stamps taken inside the worker processes
    ev = sorted([(r[2], 1) for r in res] + [(r[3], -1) for r in res], key=lambda t: (t[0], t[1]))
    cur = peak = 0
    for _, d in ev:
        cur += d
        peak = max(peak, cur)
    if peak > spec['c'] or len(pids) > spec['c']:
        raise Violation('concurrency', f"(process executor) {peak} invocations of the worker function ran at once in {len(pids)} worker processes; concurrency={spec['c']}", signature=['concurrency', 'process'])
    return CaseInfo(nontrivial=peak >= min(2, spec['c']) or spec['c'] == 1, descriptor=spec, classes=('process_executor', f"c{spec['c']}", f'peak{peak}'), sample=dict(spec, peak=peak, workers=len(pids)))


FAMILIES = [
    Family('F1_lookahead_concurrency', 'sim', spec_strategy(), run_case, quick=3000, thorough=150_000, shards_quick=8, rule=RULE, setup=_warm),
    Family('F2_process_executor', 'real', proc_spec(), run_proc, quick=6, thorough=150, shards_quick=4, shards_thorough=8, shrink=False,
           rule='Stream(range(6c..10c)).parmap(fn, executor="process", concurrency=c in 1-3) with real worker processes; fn sleeps 80-250 ms and returns (pid, start, end) stamps. '
           'Oracle: results in input order; at no moment more than c stamped intervals overlap and at most c distinct worker pids. Non-trivial: the bound c was reached.'),
]
