"""C18 - socket and pipe transports deliver intact and to the right request."""
import asyncio
import os
import tempfile
import threading
import time

from hypothesis import strategies as st

from vf.alloc import Alloc
from vf.core import CaseInfo, Family, Inconclusive, Violation

ASSUMPTIONS = [
    'F1 is pure: write_record into a capturing writer, the bytes re-fed to an asyncio.StreamReader in generated chunk boundaries, read_record must return the same id and an equal payload',
    'F2 uses real unix sockets inside one process (server loop in a thread, SocketClient with 1-4 connections); response reordering is owned through generated handler latencies (asyncio.sleep and, rarely, a loop-blocking sleep)',
    'F3 uses real FIFOs (two threads of one process); large payloads are built (pattern * k), not drawn byte by byte',
    'None is never a payload (documented: a None request means "no argument")',
    'F2: the client mints request ids with id(); a generated legal allocator (unique among live objects, may hand the number of a freed object to the next one) is assigned to the name id in mpservice.socket, '
    'so that whether a freed number comes back is a generated dimension, not the mood of the memory allocator',
]


@st.composite
def big_bytes(draw):
    pat = draw(st.binary(min_size=1, max_size=6))
    k = draw(st.sampled_from([1, 7, 100, 1 << 13, (1 << 16) // len(pat) + 1, (1 << 16) // len(pat) - 1 if (1 << 16) // len(pat) > 1 else 1, (1 << 20) // len(pat) + 3]))
    return pat * k


HEADERISH = st.sampled_from([b'7 12 pickle\n', b'\n', b'\n\n', b'1 0 none\n', b'abc 5 utf8\nhello', b' ', b'0 -1 pickle\n'])

SMALL_OBJ = st.recursive(
    st.one_of(st.integers(-5, 300), st.text(max_size=6), st.binary(max_size=6), st.booleans(), st.floats(allow_nan=False, width=32), HEADERISH, st.just(b''), st.just('')),
    lambda ch: st.one_of(st.lists(ch, max_size=3), st.tuples(ch, ch), st.dictionaries(st.text(max_size=3), ch, max_size=3)),
    max_leaves=6,
)

PAYLOAD = st.one_of(SMALL_OBJ, SMALL_OBJ, big_bytes(), HEADERISH, st.tuples(st.just('wrapped'), big_bytes()))


# --------------------------------------------------------------------------- F1 framing


@st.composite
def framing_spec(draw):
    n = draw(st.integers(1, 4))
    recs = []
    for _ in range(n):
        enc = draw(st.sampled_from(['pickle', 'pickle', 'utf8', 'none']))
        if enc == 'pickle':
            data = draw(PAYLOAD)
        elif enc == 'utf8':
            data = draw(st.one_of(st.text(max_size=20), st.sampled_from(['\n', '7 12 pickle\n', 'é\n' * 5000, ''])))
        else:
            data = draw(st.one_of(st.binary(max_size=20), HEADERISH, big_bytes()))
        rid = draw(st.one_of(st.integers(0, 2**63).map(str), st.sampled_from(['a', 'req-1', '0', 'x' * 40])))
        recs.append({'id': rid, 'enc': enc, 'data': data})
    cuts = draw(st.lists(st.integers(1, 70000), min_size=1, max_size=12))
    return {'recs': recs, 'cuts': cuts}


class CapWriter:
    def __init__(self):
        self.buf = bytearray()

    def write(self, b):
        self.buf += b

    async def drain(self):
        pass


def run_framing(spec):
    from mpservice.socket import read_record, write_record

    async def main():
        w = CapWriter()
        for r in spec['recs']:
            await write_record(w, r['id'], r['data'], encoder=r['enc'])
        raw = bytes(w.buf)
        reader = asyncio.StreamReader(limit=2**16)
        got = []

        async def feed():
            pos = 0
            k = 0
            cuts = spec['cuts']
            while pos < len(raw):
                c = cuts[k % len(cuts)]
                k += 1
                reader.feed_data(raw[pos : pos + c])
                pos += c
                await asyncio.sleep(0)
            reader.feed_eof()

        ft = asyncio.ensure_future(feed())
        for r in spec['recs']:
            got.append(await read_record(reader, timeout=30))
        await ft
        rest = await reader.read()
        return got, rest, len(raw)

    try:
        got, rest, total = asyncio.run(main())
    except Exception as e:
        # the input is well-formed by construction: any failure to read it back is a framing defect
        raise Violation('frame_unreadable', f"read_record failed with {type(e).__name__}: {str(e)[:200]} on records {[(r['id'], r['enc'], _describe(r['data'])) for r in spec['recs']]} cuts {spec['cuts'][:6]}", signature=['frame_unreadable', type(e).__name__])
    for r, (rid, data) in zip(spec['recs'], got):
        if rid != r['id']:
            raise Violation('frame_id', f"record id {r['id']!r} came back as {rid!r}", signature=['frame_id'])
        if type(data) is not type(r['data']) or data != r['data']:
            raise Violation('frame_payload', f"payload (encoder {r['enc']}, {_describe(r['data'])}) came back as {_describe(data)}", signature=['frame_payload', r['enc']])
    if rest:
        raise Violation('frame_leftover', f'{len(rest)} bytes left after the last record', signature=['frame_leftover'])
    big = any(_size(r['data']) > 65536 for r in spec['recs'])
    nl = any(_has_newline(r['data']) for r in spec['recs'])
    return CaseInfo(nontrivial=big or nl or len(spec['recs']) > 1, descriptor=[[(r['id'], r['enc'], _describe(r['data'])) for r in spec['recs']], spec['cuts']], classes=('big' if big else 'small', 'newline' if nl else 'no_newline', f"recs{len(spec['recs'])}"), metrics={'bytes': total}, sample={'records': [(r['id'], r['enc'], _describe(r['data'])) for r in spec['recs']], 'cuts': spec['cuts'][:6]})


def _size(x):
    if isinstance(x, (bytes, str)):
        return len(x)
    if isinstance(x, (list, tuple)):
        return sum(_size(v) for v in x)
    if isinstance(x, dict):
        return sum(_size(v) for v in x.values())
    return 8


def _has_newline(x):
    if isinstance(x, bytes):
        return b'\n' in x
    if isinstance(x, str):
        return '\n' in x
    if isinstance(x, (list, tuple)):
        return any(_has_newline(v) for v in x)
    if isinstance(x, dict):
        return any(_has_newline(v) for v in x.values())
    return False


def _describe(x):
    r = repr(x)
    return r if len(r) <= 60 else f'{type(x).__name__}[{_size(x)}] {r[:30]}...'


# --------------------------------------------------------------------------- F2 end to end over a unix socket


class HandlerError(Exception):
    pass


_SERVER = {}


def _start_server():
    from mpservice.socket import SocketApplication, SocketServer

    d = tempfile.mkdtemp(prefix='c18_')
    _TMPDIRS.append(d)
    path = os.path.join(d, 'sock')
    seen = []

    async def echo(req):
        token, payload, delay_ms, block_ms, fail = req
        seen.append((token, payload))
        if block_ms:
            time.sleep(block_ms / 1000.0)  # a handler that hogs the loop
        if delay_ms:
            await asyncio.sleep(delay_ms / 1000.0)
        if fail == 'TimeoutError':  # a type the transport itself catches around its own reads
            raise TimeoutError('handler failed', token)
        if fail:
            raise HandlerError('handler failed', token)
        return ('echo', token, payload)

    app = SocketApplication()
    app.add_route('/', echo)
    server = SocketServer(app, path=path)
    th = threading.Thread(target=lambda: asyncio.run(server.serve()), daemon=True, name='c18-server')
    th.start()
    _SERVER.update(path=path, server=server, thread=th, seen=seen)


_TMPDIRS = []


def _stop_server():
    import shutil

    s = _SERVER.get('server')
    if s is not None:
        s.to_shutdown = True
        _SERVER['thread'].join(5)
    for d in _TMPDIRS:
        shutil.rmtree(d, ignore_errors=True)
    del _TMPDIRS[:]


@st.composite
def e2e_spec(draw):
    if draw(st.integers(0, 1)) == 0:
        # burst: many small requests in flight at once over few connections (request ids are matched under the heaviest multiplexing)
        # (slow requests stay in flight while the same threads issue many short ones after them)
        nreq = draw(st.integers(40, 120))
        reqs = [{'payload': draw(SMALL_OBJ), 'delay_ms': draw(st.sampled_from([0, 1, 1, 5, 5, 60, 200])), 'block_ms': 0, 'fail': draw(st.sampled_from([False] * 9 + [True, 'TimeoutError']))} for _ in range(nreq)]
        if draw(st.booleans()):
            # impatient callers: some slow requests are given up after 20 ms; their late responses must be discarded, not delivered elsewhere
            for r in reqs:
                if r['delay_ms'] >= 60 and draw(st.booleans()):
                    r['rt_ms'] = 20
        nthreads = draw(st.integers(3, 8))
        owners = [draw(st.sampled_from(list(range(nthreads)) * 3 + [nthreads])) for _ in range(nreq)]
        return {'reqs': reqs, 'conns': draw(st.sampled_from([1, 1, 2])), 'nthreads': nthreads, 'owners': owners, 'gap_ms': 0, 'alloc_bits': draw(st.lists(st.sampled_from([1, 1, 1, 0]), min_size=1, max_size=8))}
    nreq = draw(st.integers(1, 12))
    reqs = []
    for i in range(nreq):
        big = draw(st.integers(0, 11)) == 0
        payload = draw(big_bytes()) if big else draw(SMALL_OBJ)
        if draw(st.integers(0, 30)) == 0:
            payload = b'z' * draw(st.sampled_from([3 << 20, 8 << 20]))
        reqs.append({'payload': payload, 'delay_ms': draw(st.sampled_from([0, 0, 1, 5, 20, 60])), 'block_ms': draw(st.sampled_from([0] * 12 + [150, 400])), 'fail': draw(st.sampled_from([False] * 10 + [True, 'TimeoutError']))})
    nthreads = draw(st.integers(1, min(8, nreq)))
    owners = [draw(st.integers(0, nthreads)) for _ in range(nreq)]  # == nthreads: part of the stream
    return {'reqs': reqs, 'conns': draw(st.integers(1, 4)), 'nthreads': nthreads, 'owners': owners, 'gap_ms': draw(st.sampled_from([0, 0, 2, 10])), 'alloc_bits': draw(st.lists(st.integers(0, 1), max_size=6))}


def run_e2e(spec):
    from mpservice.multiprocessing.remote_exception import get_remote_traceback, is_remote_exception
    import mpservice.socket as sockmod
    from mpservice.socket import SocketClient

    from vf.realproc import run_with_watchdog

    if not _SERVER:
        _start_server()
    del _SERVER['seen'][:]
    results = {}
    stream_out = []
    alloc = Alloc(spec.get('alloc_bits', []))
    sockmod.id = alloc  # request ids: legal (unique among live objects), recycling decided by generated bits

    def case():
        with SocketClient(path=_SERVER['path'], num_connections=spec['conns'], connection_timeout=20) as client:

            def requester(k):
                for i, o in enumerate(spec['owners']):
                    if o != k:
                        continue
                    r = spec['reqs'][i]
                    if spec['gap_ms']:
                        time.sleep(spec['gap_ms'] / 1000.0)
                    try:
                        results[i] = ('value', client.request('/', (i, r['payload'], r['delay_ms'], r['block_ms'], r['fail']), response_timeout=r['rt_ms'] / 1000.0 if r.get('rt_ms') else 60))
                    except BaseException as e:
                        results[i] = ('exc', e.with_traceback(None))  # the frames would keep the request's Future alive
                    e = None

            ths = [threading.Thread(target=requester, args=(k,)) for k in range(spec['nthreads'])]
            for t in ths:
                t.start()
            sidx = [i for i, o in enumerate(spec['owners']) if o == spec['nthreads']]
            if sidx:
                data = [(i, spec['reqs'][i]['payload'], spec['reqs'][i]['delay_ms'], spec['reqs'][i]['block_ms'], spec['reqs'][i]['fail']) for i in sidx]
                try:
                    for x, y in client.stream('/', data, return_x=True, return_exceptions=True):
                        stream_out.append((x, y))
                except BaseException as e:
                    stream_out.append(('STREAM-RAISED', e))
            for t in ths:
                t.join()
        return True

    try:
        run_with_watchdog(case, budget_s=60, what='socket end-to-end', hang_retries=0, hang_is_violation=False)
    except Inconclusive:
        # a wedged connection: decide from what was (not) delivered below; restart the shared server for the next case
        _SERVER.clear()
        missing = [i for i, o in enumerate(spec['owners']) if o != spec['nthreads'] and i not in results]
        raise Violation('request_unanswered', f'requests {missing} never got a response (client did not finish within 60 s)', signature=['request_unanswered'])
    finally:
        sockmod.__dict__.pop('id', None)

    def judge(i, kind, y):
        r = spec['reqs'][i]
        if r.get('rt_ms') and kind == 'exc' and type(y).__name__ == 'TimeoutError' and not y.args:
            return  # the impatient caller gave up (legal whenever the response had not arrived within its 20 ms)
        if r['fail']:
            if kind != 'exc' or type(y).__name__ != ('TimeoutError' if r['fail'] == 'TimeoutError' else 'HandlerError') or tuple(y.args) != ('handler failed', i):
                raise Violation('wrong_response', f"request {i} (handler raises): got {kind} {_describe(y)}", signature=['wrong_response', 'exc'])
            if not is_remote_exception(y) or 'echo' not in get_remote_traceback(y):
                raise Violation('traceback_lost', f'request {i}: handler exception arrived without the server-side traceback', signature=['traceback_lost'])
        else:
            want = ('echo', i, r['payload'])
            if kind != 'value':
                raise Violation('wrong_response', f'request {i}: expected its echo, got exception {y!r}', signature=['wrong_response', 'unexpected_exc', type(y).__name__])
            if not (isinstance(y, tuple) and len(y) == 3 and y[0] == 'echo'):
                raise Violation('wrong_response', f'request {i}: malformed response {_describe(y)}', signature=['wrong_response', 'malformed'])
            if y[1] != i:
                raise Violation('response_to_wrong_request', f'request {i} received the response of request {y[1]}', signature=['response_to_wrong_request'])
            if type(y[2]) is not type(r['payload']) or y[2] != r['payload']:
                raise Violation('payload_corrupted', f"request {i}: payload {_describe(r['payload'])} came back as {_describe(y[2])}", signature=['payload_corrupted'])

    for i, o in enumerate(spec['owners']):
        if o == spec['nthreads']:
            continue
        if i not in results:
            raise Violation('request_unanswered', f'request {i} has no outcome', signature=['request_unanswered'])
        judge(i, *results[i])
    sidx = [i for i, o in enumerate(spec['owners']) if o == spec['nthreads']]
    if stream_out and stream_out[-1][0] == 'STREAM-RAISED':
        raise Violation('stream_raised', f'stream(return_exceptions=True) raised {stream_out[-1][1]!r}', signature=['stream_raised', type(stream_out[-1][1]).__name__])
    if len(stream_out) != len(sidx):
        raise Violation('stream_count', f'stream of {len(sidx)} inputs yielded {len(stream_out)} outputs', signature=['stream_count'])
    for k, (x, y) in enumerate(stream_out):
        if x[0] != sidx[k]:
            raise Violation('stream_order', f'stream position {k}: input {x[0]}, expected {sidx[k]}', signature=['stream_order'])
        judge(sidx[k], 'exc' if isinstance(y, BaseException) else 'value', y)
    # the handler received exactly the sent payloads
    seen = {t: p for t, p in _SERVER['seen']}
    for i, r in enumerate(spec['reqs']):
        if i not in seen:
            raise Violation('handler_not_reached', f'request {i} never reached the handler', signature=['handler_not_reached'])
        if type(seen[i]) is not type(r['payload']) or seen[i] != r['payload']:
            raise Violation('payload_corrupted', f'handler received {_describe(seen[i])} for request {i}', signature=['payload_corrupted', 'inbound'])
    multi = spec['conns'] >= 1 and len(spec['reqs']) >= 3 and len({r['delay_ms'] for r in spec['reqs']}) > 1
    big = any(_size(r['payload']) > 65536 for r in spec['reqs'])
    return CaseInfo(nontrivial=multi or big, descriptor=[[(_describe(r['payload']), r['delay_ms'], r['block_ms'], r['fail']) for r in spec['reqs']], spec['conns'], spec['owners']], classes=(f"conns{spec['conns']}", 'big' if big else 'small', 'reordering' if multi else 'plain', 'stream' if sidx else 'no_stream', 'id_recycled' if alloc.recycled else 'ids_fresh', 'impatient' if any(r.get('rt_ms') for r in spec['reqs']) else 'patient'), metrics={'requests': len(spec['reqs']), 'recycled_ids': alloc.recycled}, sample={'requests': [(_describe(r['payload']), r['delay_ms'], r['fail']) for r in spec['reqs']][:8], 'conns': spec['conns'], 'threads': spec['nthreads']})


# --------------------------------------------------------------------------- F3 named pipes


@st.composite
def pipe_spec(draw):
    return {'a2b': draw(st.lists(PAYLOAD, max_size=6)), 'b2a': draw(st.lists(PAYLOAD, max_size=6))}


def run_pipe(spec):
    from mpservice.pipe import Client, Server

    from vf.realproc import run_with_watchdog

    d = tempfile.mkdtemp(prefix='c18p_')
    path = os.path.join(d, 'p')
    got = {'a': [], 'b': []}
    errs = []
    keep = []
    done = threading.Event()
    lock = threading.Lock()
    fin = [0]

    def side(cls, send, nrecv, key):
        try:
            p = cls(path)

            def sender():
                for x in send:
                    p.send(x)

            st_ = threading.Thread(target=sender)
            st_.start()
            for _ in range(nrecv):
                got[key].append(p.recv())
            st_.join()
            # keep this end open until the peer is done as well: data sitting in a FIFO is discarded by the kernel when the
            # last descriptor is closed, so an end that leaves before its peer has opened the pipe would lose what it sent
            keep.append(p)
        except BaseException as e:
            errs.append(repr(e))
        finally:
            with lock:
                fin[0] += 1
                if fin[0] == 2:
                    done.set()
            done.wait(30)

    def case():
        ta = threading.Thread(target=side, args=(Server, spec['a2b'], len(spec['b2a']), 'a'))
        tb = threading.Thread(target=side, args=(Client, spec['b2a'], len(spec['a2b']), 'b'))
        ta.start()
        tb.start()
        ta.join()
        tb.join()
        return True

    try:
        run_with_watchdog(case, budget_s=25, what='named pipe', signature=['hang', 'pipe'])
    finally:
        for f in ('p.1', 'p.2'):
            try:
                os.unlink(os.path.join(d, f))
            except OSError:
                pass
        try:
            os.rmdir(d)
        except OSError:
            pass
    if errs:
        raise Violation('pipe_raised', str(errs), signature=['pipe_raised'])
    for key, want in (('b', spec['a2b']), ('a', spec['b2a'])):
        have = got[key]
        if len(have) != len(want) or any(type(h) is not type(w) or h != w for h, w in zip(have, want)):
            raise Violation('pipe_content', f'direction to {key}: sent {[_describe(w) for w in want]} received {[_describe(h) for h in have]}', signature=['pipe_content'])
    big = any(_size(x) > 65536 for x in spec['a2b'] + spec['b2a'])
    return CaseInfo(nontrivial=big or (len(spec['a2b']) > 0 and len(spec['b2a']) > 0), descriptor=[[_describe(x) for x in spec['a2b']], [_describe(x) for x in spec['b2a']]], classes=('big' if big else 'small', 'bidirectional' if spec['a2b'] and spec['b2a'] else 'one_way'), sample={'a2b': [_describe(x) for x in spec['a2b']], 'b2a': [_describe(x) for x in spec['b2a']]})


RULE = (
    'F1: 1-4 records (encoders pickle/utf8/none; payloads: nested objects, empty bytes/str/containers, bytes with newlines and header look-alikes, built payloads around 2^16 and 2^20 bytes, ids incl. 64-bit ints) written with write_record, '
    're-fed to a StreamReader in generated chunk sizes 1-70000, read back with read_record. F2: unix-socket SocketServer + SocketClient(1-4 connections), 1-12 tokenised requests from 1-8 threads plus a stream(return_x), generated handler latencies '
    '(0-60 ms await, rarely 150-400 ms loop-blocking), failing handlers, occasional 3-8 MB payloads. F3: pipe.Server/Client over FIFOs, object sequences in both directions with sizes straddling 64 kB. '
    'Oracle: payload equality (type and value) at the handler and at the requester, response token == request token, handler exception class/args/remote traceback, stream order, pipe order. '
    'Non-trivial: payload > 64 kB, or containing a newline, or several records / several latencies (reordering); distinct by case.'
)

FAMILIES = [
    Family('F1_framing', 'pure', framing_spec(), run_framing, quick=4000, thorough=400_000, shards_quick=8, rule=RULE, fuzz=('mpservice.socket',)),
    Family('F2_socket_end_to_end', 'real', e2e_spec(), run_e2e, quick=160, thorough=4000, shards_quick=12, shards_thorough=16, rule=RULE, shrink=False, teardown=_stop_server),
    Family('F3_named_pipe', 'real', pipe_spec(), run_pipe, quick=120, thorough=5000, shards_quick=4, shards_thorough=8, rule=RULE, shrink=False),
]
