"""C12 - Process and Thread objects report how their target really ended."""
import time

from hypothesis import strategies as st

from vf.core import CaseInfo, Family, Inconclusive, Violation, hang_check, run_sim, sched_strategy
from vf.detsched import SimAbort

from . import targets

ASSUMPTIONS = [
    'Thread half under the deterministic scheduler (accessors race the thread start-up and the running target in owned schedules, exact virtual timeouts); '
    'Thread.terminate/throw are not part of the property and never used (asynchronous exceptions)',
    'Process half with real processes: the ending x kill-signal x phase table is enumerated completely (fault enumeration), accessor orders are generated; '
    'an accessor that does not return within the watchdog on 3 attempts is a hang',
    'endings follow tests/test_multiprocessing.py and context.py: return => exitcode 0; exception => exitcode 1 and join re-raises; sys.exit(None|0) => success with result None; '
    'sys.exit(n!=0) => exitcode n and SystemExit(n); sys.exit("text") => exitcode 1 and SystemExit("text"); terminate() (SIGTERM) is deliberate: join returns, result None; any other signal must surface as an error',
]

EXHAUSTIVE_NOTE = 'F2 enumerates the full ending x kill x phase table in every run (each cell at least once per shard rotation); values, exception classes and accessor orders are generated'

ENDINGS = ['return', 'raise', 'raise_from', 'raise_base', 'raise_multiarg', 'exit_none', 'exit_0', 'exit_n', 'exit_str']
ACCESSORS = ['join', 'result', 'exception', 'done', 'is_alive', 'wait', 'as_completed', 'result_t', 'exception_t', 'join_t', 'wait_t']


@st.composite
def thread_spec(draw):
    ending = draw(st.sampled_from(ENDINGS))
    return {
        'ending': ending,
        'value': draw(st.one_of(st.integers(-3, 3), st.text(max_size=4), st.none(), st.lists(st.integers(0, 3), max_size=3))),
        'exc': draw(st.sampled_from(['ValueError', 'KeyError', 'CustomError', 'CustomError2', 'KeyboardInterrupt', 'MultiArg'])),
        'code': draw(st.integers(1, 5)),
        'run_ms': draw(st.sampled_from([0, 0, 10, 30])),
        'accessors': draw(st.lists(st.tuples(st.sampled_from(ACCESSORS), st.sampled_from([0, 0, 3, 7, 13, 23])).map(list), min_size=1, max_size=6)),
        'sched': draw(sched_strategy(max_len=80, est_steps=300, depth=3)),
    }


def expected_ending(spec):
    """('value', v) | ('error', type name, args)"""
    e = spec['ending']
    if e == 'return':
        return ('value', spec['value'])
    if e in ('exit_none', 'exit_0'):
        return ('value', None)
    if e == 'exit_n':
        return ('error', 'SystemExit', (spec['code'],))
    if e == 'exit_str':
        return ('error', 'SystemExit', ('bye',))
    ex = targets.build_exc(spec['exc'] if e in ('raise', 'raise_from') else ('KeyboardInterrupt' if e == 'raise_base' else 'MultiArg'))
    return ('error', type(ex).__name__, ex.args)


def judge_record(rec, spec, t_end, tol=1e-9):
    """rec = (accessor, t_call, t_ret, outcome kind, payload); returns None or (clause, detail)"""
    name, t0, t1, kind, payload = rec
    exp = expected_ending(spec)
    ended_before_call = t0 > t_end + tol
    running_through = t1 < t_end - tol
    ended = t1 > t_end + tol or ended_before_call

    def is_err(p):
        return isinstance(p, BaseException) and type(p).__name__ == exp[1] and tuple(p.args) == tuple(exp[2])

    base = name.split('_')[0]
    if exp[0] == 'error' and isinstance(payload, BaseException) and is_err(payload) and spec['ending'].startswith('raise'):
        import traceback as _tb

        txt = ''.join(_tb.format_exception(type(payload), payload, payload.__traceback__))
        marker = {'raise': 'raise build_exc(exc)', 'raise_from': 'raise build_exc(exc) from ie', 'raise_base': "raise build_exc('KeyboardInterrupt')", 'raise_multiarg': "raise build_exc('MultiArg')"}[spec['ending']]
        if 'end_like' not in txt or marker not in txt:
            return ('traceback_lost', f"{name}: the re-raised {exp[1]} does not carry the thread's traceback text showing the raise site in the target ({marker!r}): {txt[-400:]}")
    if kind == 'hang':
        return ('accessor_hung', f'{name} did not return')
    if kind == 'raised' and type(payload).__name__ in ('AttributeError', 'TypeError', 'InvalidStateError') and not (exp[0] == 'error' and is_err(payload)):
        return ('accessor_crashed', f'{name} raised {type(payload).__name__}: {payload}')
    if base in ('done', 'is'):
        val = payload
        if name == 'done':
            if running_through and val is not False:
                return ('done_while_running', f'done() returned {val} at {t0:.3f} while the target runs until {t_end:.3f}')
            if ended_before_call and val is not True:
                return ('not_done_after_end', f'done() returned {val} at {t0:.3f} after the target ended at {t_end:.3f}')
        return None
    timeout = rec_timeout(name)
    if timeout is not None and abs(t0 + timeout - t_end) <= 1e-7:
        return None  # the timeout expires at the very instant the target ends: either outcome is legal
    if name in ('join', 'result', 'exception', 'wait', 'as_completed') or (timeout is not None and (t0 + timeout > t_end + tol or ended_before_call)):
        # must reflect the ending
        if base == 'join':
            if exp[0] == 'value':
                if kind != 'returned':
                    return ('join_raised', f'join raised {payload!r} although the target ended normally')
            elif not (kind == 'raised' and is_err(payload)):
                return ('join_did_not_reraise', f'join gave {kind} {payload!r}; the target ended with {exp[1]}{exp[2]}')
        elif base == 'result':
            if exp[0] == 'value':
                if kind != 'returned' or payload != exp[1]:
                    return ('wrong_result', f'result gave {kind} {payload!r}, expected value {exp[1]!r}')
            elif not (kind == 'raised' and is_err(payload)):
                return ('result_did_not_raise', f'result gave {kind} {payload!r}; the target ended with {exp[1]}{exp[2]}')
        elif base == 'exception':
            if exp[0] == 'value':
                if kind != 'returned' or payload is not None:
                    return ('wrong_exception', f'exception() gave {kind} {payload!r}, expected None')
            elif not (kind == 'returned' and is_err(payload)):
                return ('wrong_exception', f'exception() gave {kind} {payload!r}; the target ended with {exp[1]}{exp[2]}')
        elif base in ('wait', 'as'):
            if kind != 'returned' or payload != 'done':
                return ('wait_incomplete', f'{name} reported {kind} {payload!r} although the target has ended')
    else:
        # timed accessor that expires while the target is still running
        if base in ('result', 'exception'):
            if not (kind == 'raised' and type(payload).__name__ == 'TimeoutError' and type(payload).__module__.startswith('mpservice')):
                return ('timeout_not_raised', f'{name}({timeout}) while running gave {kind} {payload!r}, expected mpservice TimeoutError')
            if abs((t1 - t0) - timeout) > 1e-6:
                return ('timeout_inexact', f'{name}({timeout}) returned after {t1 - t0:.6f}s')
        elif base == 'join':
            if kind != 'returned':
                return ('join_raised', f'join({timeout}) while running raised {payload!r}')
        elif base == 'wait':
            if kind != 'returned' or payload != 'not_done':
                return ('wait_wrong', f'wait(timeout={timeout}) while running reported {kind} {payload!r}')
    return None


def rec_timeout(name):
    return 0.005 if name.endswith('_t') else None


def run_thread_case(spec):
    import mpservice.threading as mt
    from mpservice import TimeoutError as MpTimeoutError

    recs = []
    box = {}

    def scenario():
        def target():
            if spec['run_ms']:
                time.sleep(spec['run_ms'] / 1000.0)
            return targets.end_like(spec['ending'], spec['value'], spec['exc'], spec['code'])

        t = mt.Thread(target=target, name='subject')
        t.start()
        box['t_start'] = time.monotonic()
        for name, pre_ms in spec['accessors']:
            if pre_ms:
                time.sleep(pre_ms / 1000.0)
            t0 = time.monotonic()
            to = rec_timeout(name)
            try:
                base = name.split('_')[0]
                if base == 'join':
                    v = t.join(to)
                elif base == 'result':
                    v = t.result(to)
                elif base == 'exception':
                    v = t.exception(to)
                elif name == 'done':
                    v = t.done()
                elif name == 'is_alive':
                    v = t.is_alive()
                elif base == 'wait':
                    d, nd = mt.wait([t], timeout=to)
                    v = 'done' if t in d else 'not_done'
                else:
                    v = 'done' if list(mt.as_completed([t])) == [t] else 'missing'
                recs.append((name, t0, time.monotonic(), 'returned', v))
            except SimAbort:
                raise
            except BaseException as e:
                recs.append((name, t0, time.monotonic(), 'raised', e))
        try:
            t.join()
        except SimAbort:
            raise
        except BaseException:
            pass
        return True

    out = run_sim(scenario, spec['sched'], horizon=100.0, max_steps=100_000)
    try:
        hang_check(out)
    except Violation as v:
        v.clause = 'accessor_hung_' + v.clause
        raise
    t_end = box['t_start'] + spec['run_ms'] / 1000.0
    for rec in recs:
        # records whose window touches the end instant are schedule-dependent: only consistency is required (covered by later accessors)
        bad = judge_record(rec, spec, t_end)
        if bad:
            raise Violation(bad[0], f"{bad[1]} (ending {spec['ending']}, run {spec['run_ms']} ms)", signature=[bad[0], rec[0].split('_')[0]])
    racing = any(r[1] <= t_end for r in recs)
    return CaseInfo(
        nontrivial=spec['ending'] != 'return' or racing,
        descriptor=[spec['ending'], spec['exc'], spec['run_ms'], [a[0] for a in spec['accessors']], out.sim.trace[:30]],
        classes=('thread', spec['ending'], 'first_' + spec['accessors'][0][0], 'racing' if racing else 'after_end'),
        metrics={'steps': out.sim.steps},
        sample={'ending': spec['ending'], 'exc': spec['exc'], 'run_ms': spec['run_ms'], 'accessors': spec['accessors'], 'records': [(r[0], r[3], repr(r[4])[:40]) for r in recs]},
    )


# --------------------------------------------------------------------------- Process half: fault enumeration

KILLS = ['none', 'SIGKILL', 'SIGABRT', 'SIGUSR1', 'terminate']
PHASES = ['before_target', 'during', 'after_result']
P_ENDINGS = ['return', 'raise', 'raise_from', 'raise_multiarg', 'exit_none', 'exit_0', 'exit_n', 'exit_str', 'unpicklable']
TABLE = [(e, 'none', '-') for e in P_ENDINGS] + [(e, k, p) for e in ('return', 'raise') for k in KILLS[1:] for p in PHASES]


@st.composite
def proc_spec(draw):
    cell = draw(st.integers(0, len(TABLE) - 1))
    e, k, p = TABLE[cell]
    return {
        'cell': cell,
        'ending': e,
        'kill': k,
        'phase': p,
        'value': draw(st.one_of(st.integers(-3, 3), st.text(max_size=4), st.none(), st.lists(st.integers(0, 3), max_size=3))),
        'exc': draw(st.sampled_from(['ValueError', 'KeyError', 'CustomError', 'CustomError2', 'TimeoutError'])),
        'code': draw(st.integers(2, 5)),
        'accessors': draw(st.permutations(['join', 'result', 'exception', 'done', 'exitcode', 'wait', 'as_completed'])),
        'log_lines': draw(st.sampled_from([0, 0, 3])),
        'probe_running': draw(st.booleans()),
        'slow_ms': draw(st.sampled_from([0, 0, 700])) if k == 'none' else 0,
        'linger_ms': draw(st.sampled_from([0, 0, 0, 2500])) if k == 'none' else 0,
        'linger_first': draw(st.sampled_from(['wait', 'as_completed'])),
        'reap_delay_ms': draw(st.sampled_from([0, 0, 300])),
        'gc_probe': draw(st.sampled_from([False, False, True])),
    }


def run_proc_case(spec):
    from vf.realproc import reap_children, run_with_watchdog

    try:
        res = run_with_watchdog(lambda: targets.process_case(spec), budget_s=25, what=f"Process {spec['ending']}/{spec['kill']}/{spec['phase']}", signature=['hang', spec['ending'], spec['kill'], spec['phase']])
    finally:
        reap_children()
    if res.get('skipped'):
        raise Inconclusive(res['skipped'])
    recs = res['records']
    ending, kill = spec['ending'], spec['kill']
    for name, kind, payload in recs:
        if kind == 'hang':
            raise Violation('accessor_hung', f'{name} did not return within 10 s after the child was gone ({ending}/{kill}/{spec["phase"]}); records {recs}', signature=['accessor_hung', name, kill])
    for rec in res.get('running', []):
        name = rec[0]
        if name == 'done' and rec[1] is not False:
            raise Violation('done_while_running', f'done() returned {rec[1]} while the target was running', signature=['done_while_running', 'process'])
        if name == 'is_alive' and rec[1] is not True:
            raise Violation('not_alive_while_running', f'is_alive() returned {rec[1]} while the target was running', signature=['not_alive_while_running'])
        if name in ('result', 'exception'):
            if rec[1] != 'mp_timeout':
                raise Violation('timeout_not_raised', f'{name}(0.15) while the target was running gave {rec[1]}, expected mpservice TimeoutError', signature=['timeout_not_raised', name, 'process'])
            if not (0.1 <= rec[2] <= 3.0):
                raise Violation('timeout_inexact', f'{name}(0.15) returned after {rec[2]:.2f}s', signature=['timeout_inexact', name])
        if name == 'wait' and rec[1] != 'not_done':
            raise Violation('wait_wrong', f'wait(timeout=0.15) while running reported {rec[1]}', signature=['wait_wrong', 'process'])
        if name == 'join' and rec[1] != 'None':
            raise Violation('join_raised', f'join(0.1) while running gave {rec[1]}', signature=['join_raised', 'running'])
    if res.get('gc_probe') == 'deadlock':
        raise Violation('finalizer_deadlock', f'after {ending}/{kill}/{spec["phase"]}: collecting the Process object while a thread is inside threading.py\'s start/stop critical section dead-locked that thread (a finalizer of the object joins a thread there); from then on no thread of the parent can be started or joined, e.g. the next Process.start() hangs', signature=['finalizer_deadlock', kill])
    lp = res.get('linger_probe')
    if lp is not None:
        if not lp['said_done']:
            raise Violation('wait_incomplete', f"{spec['linger_first']}(timeout=20) did not report a child that ends after lingering {spec['linger_ms']} ms: {lp}", signature=['wait_incomplete', 'linger'])
        if not lp['agreed']:
            # 1.5 s of grace (the OS-level reaping may trail the report by milliseconds) against a child that lingers 2.5 s
            raise Violation('accessors_disagree', f"{spec['linger_first']}() reported the child done after {lp['after_s']:.2f}s, but done()={lp['done_now']} exitcode={lp['exitcode_now']} and they still said 'not finished' 1.5 s later (the child lingers {spec['linger_ms']} ms after sending its outcome)", signature=['accessors_disagree', 'linger'])
    by = {name: (kind, payload) for name, kind, payload in recs}
    effective_kill = kill != 'none' and not res.get('kill_missed')
    if not effective_kill:
        exp = None
        if ending == 'return':
            exp = ('value', repr(spec['value']), 0)
        elif ending in ('exit_none', 'exit_0'):
            exp = ('value', repr(None), 0)
        elif ending == 'exit_n':
            exp = ('error', 'SystemExit', repr((spec['code'],)), spec['code'])
        elif ending == 'exit_str':
            exp = ('error', 'SystemExit', repr(('bye',)), 1)
        elif ending in ('raise', 'raise_from', 'raise_multiarg'):
            ex = targets.build_exc(spec['exc'] if ending in ('raise', 'raise_from') else 'MultiArg')
            exp = ('error', type(ex).__name__, repr(tuple(ex.args)), 1)
        if exp is not None and exp[0] == 'value':
            if by['join'] != ('returned', 'None'):
                raise Violation('join_raised', f"join gave {by['join']} for ending {ending}", signature=['join_raised', ending])
            if by['result'] != ('returned', exp[1]):
                raise Violation('wrong_result', f"result gave {by['result']}, expected {exp[1]}", signature=['wrong_result', ending])
            if by['exception'] != ('returned', 'None'):
                raise Violation('wrong_exception', f"exception() gave {by['exception']}", signature=['wrong_exception', ending])
            if by['exitcode'] != ('returned', '0'):
                raise Violation('wrong_exitcode', f"exitcode {by['exitcode']}", signature=['wrong_exitcode', ending])
        elif exp is not None:
            want = f'{exp[1]}{exp[2]}'
            for acc in ('join', 'result'):
                k_, p_ = by[acc]
                if k_ != 'raised' or not p_.startswith(want):
                    raise Violation(f'{acc}_did_not_reraise', f'{acc} gave {by[acc]}, expected {want}', signature=[f'{acc}_did_not_reraise', ending])
                if ending.startswith('raise') and 'end_like' not in res.get('tb_' + acc, ''):
                    raise Violation('traceback_lost', f"{acc}: re-raised error lacks the child's traceback text naming the target: {res.get('tb_' + acc, '')[-300:]}", signature=['traceback_lost', acc])
            k_, p_ = by['exception']
            if k_ != 'returned' or not p_.startswith(want):
                raise Violation('wrong_exception', f"exception() gave {by['exception']}, expected {want}", signature=['wrong_exception', ending])
            if by['exitcode'] != ('returned', str(exp[3])):
                raise Violation('wrong_exitcode', f"exitcode {by['exitcode']}, expected {exp[3]}", signature=['wrong_exitcode', ending])
        # unpicklable: consistency predicate only (below)
    # consistency predicate for every cell
    if by['done'] != ('returned', 'True'):
        raise Violation('not_done_after_end', f"done() gave {by['done']} after the child was gone", signature=['not_done_after_end', kill])
    if by['exitcode'][1] == 'None':
        raise Violation('no_exitcode', 'exitcode is None after the child was gone', signature=['no_exitcode', kill])
    if by['wait'] != ('returned', 'done'):
        raise Violation('wait_incomplete', f"wait() gave {by['wait']}", signature=['wait_incomplete', kill])
    if by['as_completed'] != ('returned', 'done'):
        raise Violation('as_completed_incomplete', f"as_completed gave {by['as_completed']}", signature=['as_completed_incomplete', kill])
    if effective_kill and kill != 'terminate' and spec['phase'] != 'after_result':
        # an unexpected signal before the outcome was delivered must surface as an error
        for acc in ('join', 'result'):
            if by[acc][0] != 'raised':
                raise Violation('signal_death_not_an_error', f'{acc} gave {by[acc]} although the child was killed by {kill} {spec["phase"]}; all records: {recs}', signature=['signal_death_not_an_error', acc, kill])
        if by['exception'][0] == 'returned' and by['exception'][1] == 'None':
            raise Violation('signal_death_not_an_error', f'exception() returned None although the child was killed by {kill}', signature=['signal_death_not_an_error', 'exception', kill])
    if ending == 'unpicklable' and by['join'][0] != 'raised':
        raise Violation('lost_result_not_an_error', f"child could not send its (unpicklable) result but join gave {by['join']}", signature=['lost_result_not_an_error'])
    # no accessor contradicts another: join raises <=> result raises <=> exception() is not None
    flags = {by['join'][0] == 'raised', by['result'][0] == 'raised', not (by['exception'][0] == 'returned' and by['exception'][1] == 'None')}
    if len(flags) != 1:
        raise Violation('accessors_disagree', f"join {by['join']} result {by['result']} exception {by['exception']}", signature=['accessors_disagree', ending, kill])
    return CaseInfo(
        nontrivial=not (ending == 'return' and kill == 'none'),
        descriptor=[spec['cell'], spec['accessors'][0], spec['exc'] if ending == 'raise' else None],
        classes=('process', f'cell_{ending}_{kill}_{spec["phase"]}', 'first_' + spec['accessors'][0], 'kill_missed' if res.get('kill_missed') else 'as_planned', 'probed_while_running' if res.get('running') else 'not_probed', 'lingering_child' if spec.get('linger_ms') else 'prompt_exit', 'reaper_delayed' if spec.get('reap_delay_ms') else 'reaper_prompt', 'gc_probe' if res.get('gc_probe') else 'no_gc_probe'),
        sample={'ending': ending, 'kill': kill, 'phase': spec['phase'], 'accessors': list(spec['accessors']), 'records': recs},
    )


def _warm():
    for _ in range(2):
        try:
            run_thread_case({'ending': 'return', 'value': 1, 'exc': 'ValueError', 'code': 1, 'run_ms': 10, 'accessors': [['done', 0], ['result', 3]], 'sched': {'kind': 'default'}})
        except Violation:
            pass


RULE = (
    'F1 (sim, mpservice.threading.Thread): ending in {return v, raise E(args) incl. KeyboardInterrupt and a class with 3 required constructor arguments, sys.exit(None|0|n|"text")} after 0/10/30 virtual ms; '
    'generated sequences of 1-6 accessors {join, result, exception, done, is_alive, wait, as_completed, and timed variants (5 ms)} with generated gaps, started right after start() (racing the thread start-up) under owned schedules. '
    'F2 (real, mpservice Process): the table ending{return, raise, raise(3-arg class), sys.exit x4, unpicklable result} + {return, raise} x kill{SIGKILL, SIGABRT, SIGUSR1, terminate()} x phase{before target, during, after result sent} (32 cells) '
    'with a generated permutation of {join, result, exception, done, exitcode, wait, as_completed}; generated perturbations: the child lingers 2.5 s after its outcome was sent (then wait/as_completed first and the other accessors must agree within 1.5 s), the thread that reaps the child is delayed 300 ms after waitpid, the Process object is collected while a thread holds the lock of threading.py start/stop critical section (must not dead-lock). Oracle: expectation table for orderly endings; cross-accessor consistency for kills/unpicklables; every accessor returns. '
    'Non-trivial: anything but "return, not killed"; distinct by (cell or ending, first accessor, exception class, schedule prefix).'
)

FAMILIES = [
    Family('F1_thread', 'sim', thread_spec(), run_thread_case, quick=3000, thorough=150_000, shards_quick=8, rule=RULE, setup=_warm),
    Family('F2_process_table', 'real', proc_spec(), run_proc_case, quick=128, thorough=3000, shards_quick=16, shards_thorough=16, rule=RULE, shrink=False),
]
