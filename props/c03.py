"""C03 - stream pipelines equal their sequential meaning; building is lazy; consumption is incremental."""
import itertools
import re as _re
from collections import Counter, deque

from hypothesis import strategies as st

from vf.core import CaseInfo, Family, Inconclusive, Violation, run_sim, tape_strategy
from vf.detsched import SimAbort

_ADDR = _re.compile(r'0x[0-9a-fA-F]+')

ASSUMPTIONS = [
    'the reference interpreter below (plain generators; buffer = identity, parmap = map, groupby = itertools.groupby) is the documented sequential meaning',
    'a groupby group is consumed before the stream advances across a thread (itertools semantics): groups are materialised before buffer/parmap/shuffle',
    'peek(interval=float) is random by design and not generated; with_exc_tb=False so transcripts do not contain file positions',
    'a deadlock/horizon verdict of the scheduler while consuming is reported here too (the consumer never receives the sequential meaning); C05 explores hangs in depth',
]

# --------------------------------------------------------------------------- element kinds and function menu
# kinds: 'S' scalar (int/str/None/tuple/exception object), ('L', k) list of k, ('G', k) groupby item whose group holds k


class PoisonError(Exception):
    pass


def _isint(x):
    return isinstance(x, int) and not isinstance(x, bool)


def f_inc(x):
    return x + 1 if _isint(x) else x


def f_neg(x):
    return -x if _isint(x) else x


def f_str(x):
    return f'<{x}>' if isinstance(x, (int, str)) else x


def f_wrap(x):
    return ValueError('wrapped', x) if _isint(x) and x % 3 == 0 else x


def f_raise5(x):
    if _isint(x) and x % 7 == 5:
        raise PoisonError('poison', x)
    return x


def f_rep(x):
    return [x] * (x % 3) if _isint(x) else []


def f_len(x):
    return len(x)


def f_rev(x):
    return list(reversed(x))


def f_glist(x):
    return list(x[1])


def f_gkey(x):
    return x[0]


def f_gpair(x):
    return [x[0], list(x[1])]


def p_odd(x):
    return _isint(x) and x % 2 == 1


def p_notexc(x):
    return not isinstance(x, BaseException)


def p_true(x):
    return True


def p_nonempty(x):
    return len(x) > 0


def p_raise(x):
    if _isint(x) and x % 7 == 6:
        raise PoisonError('pred', x)
    return True


def k_mod2(x):
    return x % 2 if _isint(x) else type(x).__name__


def k_type(x):
    return type(x).__name__


def k_len(x):
    return len(x)


def k_const(x):
    return 0


def a_add(z, x):
    return (z if _isint(z) else 0) + (x if _isint(x) else 0)


def a_concat(z, x):
    return list(z) + list(x)


def a_last(z, x):
    return x


FUNCS = {f.__name__: f for f in [f_inc, f_neg, f_str, f_wrap, f_raise5, f_rep, f_len, f_rev, f_glist, f_gkey, f_gpair, p_odd, p_notexc, p_true, p_nonempty, p_raise, k_mod2, k_type, k_len, k_const, a_add, a_concat, a_last]}

EXC_TYPES = {'None': None, 'ValueError': ValueError, 'KeyError': KeyError, 'Exception': Exception, 'VK': (ValueError, KeyError), 'PoisonError': PoisonError, 'BaseException': BaseException}

SCALARS = st.one_of(
    st.integers(-3, 12),
    st.integers(-3, 12),
    st.sampled_from(['a', 'bb', '']),
    st.none(),
    st.sampled_from(['E:ValueError', 'E:KeyError', 'E:PoisonError']),
)


def realise(x):
    """JSON-able source element -> python element"""
    if isinstance(x, str) and x.startswith('E:'):
        return EXC_TYPES[x[2:]]('elem')
    if isinstance(x, list):
        return [realise(v) for v in x]
    return x


def has_group(kind):
    while kind != 'S':
        if kind[0] == 'G':
            return True
        kind = kind[1]
    return False


@st.composite
def program(draw, one_to_one_only=False):
    src_kind = 'S' if one_to_one_only else draw(st.sampled_from(['S', 'S', 'S', 'LS']))
    n = draw(st.integers(0, 30))
    if src_kind == 'S':
        src = draw(st.lists(SCALARS, min_size=n, max_size=n))
        kind = 'S'
    else:
        n = min(n, 10)
        src = draw(st.lists(st.lists(SCALARS, max_size=4), min_size=n, max_size=n))
        kind = ('L', 'S')
    nops = draw(st.integers(0, 6))
    ops = []
    sizes = st.one_of(st.sampled_from([1, 1, 2, 3, 5]), st.just(len(src) + 1), st.just(max(1, len(src))))
    for _ in range(nops):
        cands = []
        if kind == 'S':
            cands += [('map', 'f_inc'), ('map', 'f_neg'), ('map', 'f_str'), ('map', 'f_wrap'), ('map', 'f_raise5'), ('accumulate', 'a_add'), ('accumulate', 'a_last'), ('peek', None)]
            if not one_to_one_only:
                cands += [('map', 'f_rep'), ('filter', 'p_odd'), ('filter', 'p_notexc'), ('filter', 'p_raise'), ('filter_exceptions', None), ('filter_exceptions', None), ('groupby', 'k_mod2'), ('groupby', 'k_type'), ('groupby', 'k_const')]
        elif kind[0] == 'L':
            cands += [('map', 'f_rev')]
            if not has_group(kind):
                cands += [('peek', None)]
            if not one_to_one_only:
                cands += [('map', 'f_len'), ('filter', 'p_nonempty'), ('unbatch', None), ('unbatch', None), ('groupby', 'k_len'), ('accumulate', 'a_concat')]
        elif kind[0] == 'G':
            cands += [('map', 'f_glist'), ('map', 'f_glist'), ('map', 'f_gkey'), ('map', 'f_gpair'), ('batch', None), ('head', None), ('tail', None), ('filter', 'p_true')]
        if kind == 'S' or kind[0] == 'L':
            cands += [('head', None)]
            if not has_group(kind):
                cands += [('buffer', None), ('parmap', None)]
            if not one_to_one_only:
                cands += [('tail', None), ('batch', None), ('batch', None)]
        op, fn = draw(st.sampled_from(cands))
        o = {'op': op}
        if op == 'map':
            o['f'] = fn
            kind = {'f_rep': ('L', 'S'), 'f_len': 'S', 'f_glist': ('L', kind[1]) if kind[0] == 'G' else kind, 'f_gkey': 'S', 'f_gpair': ('L', 'S')}.get(fn, kind)
            if fn == 'f_gpair':
                kind = ('L', 'S')  # [key, list] - treated as a list of scalars-ish (only order-preserving ops follow)
        elif op == 'filter':
            o['f'] = fn
        elif op == 'filter_exceptions':
            o['drop'] = draw(st.sampled_from(['None', 'ValueError', 'KeyError', 'Exception', 'VK', 'PoisonError']))
            o['keep'] = draw(st.sampled_from(['None', 'None', 'ValueError', 'KeyError', 'Exception']))
        elif op == 'peek':
            o['interval'] = draw(st.sampled_from([None, 1, 2, 3]))
            o['exc_types'] = draw(st.sampled_from(['BaseException', 'None', 'ValueError', 'VK']))
            o['prefix'] = draw(st.sampled_from(['', 'p', 'p ']))
            o['suffix'] = draw(st.sampled_from(['', 's', ' s']))
        elif op in ('head', 'tail', 'batch'):
            o['n'] = draw(sizes)
            if op == 'batch':
                kind = ('L', kind)
        elif op == 'unbatch':
            kind = kind[1]
        elif op == 'groupby':
            o['f'] = fn
            kind = ('G', kind)
        elif op == 'accumulate':
            o['f'] = fn
            o['init'] = draw(st.sampled_from(['NOTSET', 'NOTSET', 0, 5])) if fn != 'a_concat' else draw(st.sampled_from(['NOTSET', 'EMPTY']))
        elif op == 'buffer':
            o['n'] = draw(st.sampled_from([1, 2, 3, 5, 50]))
        elif op == 'parmap':
            o['f'] = draw(st.sampled_from(['f_inc', 'f_neg', 'f_wrap', 'f_raise5', 'f_str'])) if kind == 'S' else 'f_rev'
            o['c'] = draw(st.sampled_from([1, 2, 3]))
            o['rx'] = draw(st.booleans()) and not one_to_one_only
            o['rexc'] = draw(st.booleans())
            if o['rx']:
                kind = 'S' if kind == 'S' else ('L', 'S')
                if kind != 'S':
                    # (x, y) tuples of lists: treat as opaque scalars afterwards
                    kind = 'S'
        ops.append(o)
    if not one_to_one_only and not has_group(kind) and draw(st.integers(0, 5)) == 0:
        ops.append({'op': 'shuffle', 'n': draw(sizes)})
    if kind != 'S' and kind[0] == 'G':
        ops.append({'op': 'map', 'f': 'f_gpair'})
    spec = {'src': src, 'ops': ops}
    if one_to_one_only:
        spec['consume'] = 'take'
        spec['k'] = draw(st.integers(0, len(src)))
    else:
        spec['consume'] = draw(st.sampled_from(['iterate', 'iterate', 'collect', 'drain']))
    spec['sched'] = draw(st.one_of(st.just({'kind': 'default'}), tape_strategy(40)))
    return spec


# --------------------------------------------------------------------------- reference interpreter (independent)


def ref_pipeline(elems, ops, transcript):
    it = iter(elems)
    for idx, o in enumerate(ops):
        it = _ref_op(it, o, transcript, idx)
    return it


def _ref_op(it, o, transcript, pidx=0):
    op = o['op']
    if op == 'map':
        f = FUNCS[o['f']]
        return (f(x) for x in it)
    if op == 'filter':
        f = FUNCS[o['f']]
        return (x for x in it if f(x))
    if op == 'filter_exceptions':
        drop, keep = EXC_TYPES[o['drop']], EXC_TYPES[o['keep']]

        def g():
            for x in it:
                if isinstance(x, BaseException):
                    if keep is not None and isinstance(x, keep):
                        yield x
                    elif drop is not None and isinstance(x, drop):
                        continue
                    else:
                        raise x
                else:
                    yield x

        return g()
    if op == 'peek':
        interval = o['interval']
        et = EXC_TYPES[o['exc_types']]
        prefix, suffix = o['prefix'], o['suffix']
        if prefix and not prefix.endswith(' '):
            prefix += ' '
        if suffix and not suffix.startswith(' '):
            suffix = ' ' + suffix

        def g():
            i = 0
            for x in it:
                i += 1
                show = interval is not None and i % interval == 0
                if not show and et is not None and isinstance(x, BaseException) and isinstance(x, et):
                    show = True
                if show:
                    transcript.append((pidx, f'{prefix}#{i}:'))
                    transcript.append((pidx, f'{x}{suffix}'))
                yield x

        return g()
    if op == 'head':
        return itertools.islice(it, o['n'])
    if op == 'tail':

        def g():
            d = deque(it, maxlen=o['n'])
            yield from d

        return g()
    if op == 'batch':

        def g():
            while True:
                b = list(itertools.islice(it, o['n']))
                if not b:
                    return
                yield b

        return g()
    if op == 'unbatch':
        return (y for x in it for y in x)
    if op == 'groupby':
        return itertools.groupby(it, FUNCS[o['f']])
    if op == 'accumulate':
        f = FUNCS[o['f']]
        init = o['init']

        def g():
            have = init != 'NOTSET'
            z = [] if init == 'EMPTY' else init
            for x in it:
                if not have:
                    z = x
                    have = True
                else:
                    z = f(z, x)
                yield z

        return g()
    if op == 'buffer':
        return it
    if op == 'parmap':
        f = FUNCS[o['f']]

        def g():
            for x in it:
                try:
                    y = f(x)
                except Exception as e:
                    if o['rexc']:
                        y = e
                    else:
                        raise
                yield (x, y) if o['rx'] else y

        return g()
    if op == 'shuffle':
        return it  # compared as multiset
    raise ValueError(op)


def build_real(elems_iterable, ops, transcript):
    from mpservice.streamer import Stream

    s = Stream(elems_iterable)
    for pidx, o in enumerate(ops):
        op = o['op']
        if op == 'map':
            s.map(FUNCS[o['f']])
        elif op == 'filter':
            s.filter(FUNCS[o['f']])
        elif op == 'filter_exceptions':
            s.filter_exceptions(EXC_TYPES[o['drop']], EXC_TYPES[o['keep']])
        elif op == 'peek':
            s.peek(print_func=lambda line, pidx=pidx: transcript.append((pidx, line)), interval=o['interval'], exc_types=EXC_TYPES[o['exc_types']], with_exc_tb=False, prefix=o['prefix'], suffix=o['suffix'])
        elif op == 'head':
            s.head(o['n'])
        elif op == 'tail':
            s.tail(o['n'])
        elif op == 'batch':
            s.batch(o['n'])
        elif op == 'unbatch':
            s.unbatch()
        elif op == 'groupby':
            s.groupby(FUNCS[o['f']])
        elif op == 'accumulate':
            if o['init'] == 'NOTSET':
                s.accumulate(FUNCS[o['f']])
            else:
                s.accumulate(FUNCS[o['f']], [] if o['init'] == 'EMPTY' else o['init'])
        elif op == 'buffer':
            s.buffer(o['n'])
        elif op == 'parmap':
            s.parmap(FUNCS[o['f']], executor='thread', concurrency=o['c'], return_x=o['rx'], return_exceptions=o['rexc'])
        elif op == 'shuffle':
            s.shuffle(o['n'])
        else:
            raise ValueError(op)
    return s


def norm(x):
    if isinstance(x, BaseException):
        return ['EXC', type(x).__name__, norm(list(x.args))]
    if isinstance(x, (list, tuple)):
        return [norm(v) for v in x]
    if hasattr(x, '__next__'):
        return ['ITER', [norm(v) for v in x]]
    return x


class CountingSource:
    def __init__(self, elems):
        self.elems = elems
        self.iters = 0
        self.nexts = 0

    def __iter__(self):
        self.iters += 1
        return self._gen()

    def _gen(self):
        for x in self.elems:
            self.nexts += 1
            yield x


def run_consume(stream_or_iter, mode, k=None, is_real=False, src=None):
    """returns (outs | count, terminal, pulled_at_k)"""
    outs = []
    term = 'end'
    pulled = None
    try:
        if mode == 'iterate':
            for x in stream_or_iter:
                outs.append(norm(x))
        elif mode == 'collect':
            outs = [norm(x) for x in (stream_or_iter.collect() if is_real else list(stream_or_iter))]
        elif mode == 'drain':
            outs = stream_or_iter.drain() if is_real else sum(1 for _ in stream_or_iter)
        elif mode == 'take':
            it = iter(stream_or_iter)
            if k > 0:
                for x in it:
                    outs.append(norm(x))
                    if len(outs) >= k:
                        break
            if src is not None:
                pulled = src.nexts
            if hasattr(it, 'close'):
                it.close()
    except SimAbort:
        raise
    except BaseException as e:
        term = norm(e)
    return outs, term, pulled


def lookahead_allowance(ops):
    tot = 0
    for o in ops:
        if o['op'] == 'head':
            tot += 1
        elif o['op'] == 'buffer':
            tot += o['n'] + 2
        elif o['op'] == 'parmap':
            tot += 2 * o['c'] + 3
    return tot


def run_case(spec):
    elems = [realise(x) for x in spec['src']]
    ops = spec['ops']
    mode = spec['consume']
    # reference
    rt = []
    exp_outs, exp_term, _ = run_consume(ref_pipeline(elems, ops, rt), mode, spec.get('k'))
    tr = []
    src = CountingSource(elems)
    box = {}

    def scenario():
        s = build_real(src, ops, tr)
        box['iters_after_build'] = (src.iters, src.nexts)
        return run_consume(s, mode, spec.get('k'), is_real=True, src=src)

    out = run_sim(scenario, spec['sched'], horizon=600.0, max_steps=200_000)
    if out.sim.verdict == 'steps':
        raise Inconclusive('step budget')
    if out.sim.verdict is not None:
        # consuming the stream must yield the sequential meaning; a consumer that never gets there yields nothing (also C05's business)
        from vf.core import hang_check

        hang_check(out)
    if out.exc is not None:
        raise Violation('scenario_exception', f'{type(out.exc).__name__}: {out.exc}', signature=['exc', type(out.exc).__name__])
    outs, term, pulled = out.result
    if box['iters_after_build'] != (0, 0):
        raise Violation('eager_build', f'building the pipeline pulled from the source: iter/next counts {box["iters_after_build"]}', signature=['eager_build'])
    has_shuffle = any(o['op'] == 'shuffle' for o in ops)
    opnames = [o['op'] for o in ops]
    if has_shuffle and mode != 'drain' and term == exp_term:
        c1 = Counter(map(repr, outs))
        c2 = Counter(map(repr, exp_outs))
        # on a failure the shuffle buffer legitimately still holds elements: outputs are a sub-multiset
        bad = (c1 != c2) if term == 'end' else bool(c1 - c2)
        if bad:
            raise Violation('shuffle_not_permutation', f'got multiset {dict(c1)}, expected {dict(c2)} (terminal {term})', signature=['shuffle'])
    elif outs != exp_outs or term != exp_term:
        if mode == 'drain' or not isinstance(outs, list):
            where = f'count {outs} vs {exp_outs}'
        else:
            kk = next((i for i, (a, b) in enumerate(zip(outs, exp_outs)) if a != b), min(len(outs), len(exp_outs)))
            where = f'first difference at output {kk}: got {outs[kk:kk+2]} expected {exp_outs[kk:kk+2]} (lengths {len(outs)}/{len(exp_outs)})'
        raise Violation('meaning', f'ops={opnames} mode={mode}: {where}; terminal got {term} expected {exp_term}', signature=['meaning', 'term' if outs == exp_outs else 'outs'])
    # stages with look-ahead downstream of a peek (head pulls one beyond n, buffer, parmap) and early stops legitimately make
    # peek see more elements than the sequential meaning consumes: then the expected transcript must be a prefix of the real one
    lookahead_after_peek = False
    seen_peek = False
    for o in ops:
        if o['op'] == 'peek':
            seen_peek = True
        elif seen_peek and o['op'] in ('head', 'buffer', 'parmap'):
            lookahead_after_peek = True
    if not has_shuffle:
        for pidx in sorted({p for p, _ in rt} | {p for p, _ in tr}):
            # elements whose repr carries a memory address (e.g. the lazy itertools._grouper inside a groupby pair) print differently
            # in two runs of the same program: addresses are masked on both sides
            a = [_ADDR.sub('0x?', l) for p, l in tr if p == pidx]
            b = [_ADDR.sub('0x?', l) for p, l in rt if p == pidx]
            if lookahead_after_peek or mode == 'take':
                if a[: len(b)] != b:
                    raise Violation('peek_transcript', f'peek #{pidx} printed {a[:8]}, expected a transcript starting with {b[:8]}', signature=['peek'])
            elif a != b:
                raise Violation('peek_transcript', f'peek #{pidx} printed {a[:8]} expected {b[:8]}', signature=['peek'])
    if mode == 'take' and term == 'end':
        allow = spec['k'] + lookahead_allowance(ops)
        if pulled is not None and pulled > allow:
            raise Violation('not_incremental', f'after taking k={spec["k"]} outputs the source had been pulled {pulled} times > k + look-ahead allowance {allow} (ops {opnames})', signature=['not_incremental'])
    not121 = any(o['op'] in ('filter', 'filter_exceptions', 'head', 'tail', 'batch', 'unbatch', 'groupby', 'shuffle') or o.get('f') == 'f_rep' for o in ops)
    nontrivial = (len(ops) >= 2 and not121 and len(elems) > 0) or (mode == 'take' and len(ops) >= 1 and spec['k'] > 0)
    return CaseInfo(
        nontrivial=nontrivial,
        descriptor=[spec['src'], ops, mode, spec.get('k')],
        classes=tuple(sorted(set(opnames))) + (f'mode_{mode}', 'raised' if exp_term != 'end' else 'clean', f'len{min(len(ops), 6)}'),
        metrics={'steps': out.sim.steps, 'ops': len(ops)},
        sample={'src': spec['src'][:10], 'ops': ops, 'mode': mode, 'outs': exp_outs if not isinstance(exp_outs, list) else exp_outs[:6], 'term': exp_term},
    )


def _warm():
    for _ in range(2):
        run_case({'src': [1, 2, 3, 4], 'ops': [{'op': 'buffer', 'n': 2}, {'op': 'parmap', 'f': 'f_inc', 'c': 2, 'rx': False, 'rexc': True}], 'consume': 'iterate', 'sched': {'kind': 'default'}})


RULE = (
    'type-directed generated programs of 0-6 operators over map/filter/filter_exceptions/peek/head/tail/batch/unbatch/groupby/accumulate/buffer/parmap(thread)/shuffle '
    '(element kind scalar / list / group threaded through the generator; boundary sizes 1, len, len+1) on sources of ints/strs/None/exception objects/nested+empty lists, '
    'consumed by iteration, collect or drain; compared with an independent lazy reference interpreter incl. terminal exception and peek transcript; shuffle as multiset. '
    'F2: chains of one-to-one operators, take k then close: source pulls <= k + sum of per-operator look-ahead; building pulls nothing. '
    'Non-trivial: >=2 operators with >=1 not one-to-one on non-empty input (F1); k>0 with >=1 operator (F2); distinct by (source, program, mode).'
)

FAMILIES = [
    Family('F1_programs', 'sim', program(), run_case, quick=6000, thorough=400_000, shards_quick=8, rule=RULE, setup=_warm),
    Family('F2_incremental', 'sim', program(one_to_one_only=True), run_case, quick=2000, thorough=100_000, shards_quick=4, rule=RULE, setup=_warm),
]
