"""C13 - hosted objects live exactly as long as some proxy refers to them (reference-count model over generated histories)."""
import gc
import os
import pickle
import time

from hypothesis import strategies as st

from vf.core import CaseInfo, Family, Inconclusive, Violation

from . import managerlib as ml

ASSUMPTIONS = [
    'real processes: one ServerProcess and one helper client process per shard, reused across histories after a verified return to the empty state',
    'model: refs[obj] = live proxies anywhere (main process, helper process, inside hosted containers) + pickles in transit; a destroyed container drops the proxies it holds (cascade)',
    'the server keeps the last reply of a connection alive until that connection\'s next request (stdlib behaviour): before comparing, every live client connection is quiesced with a no-op call, '
    'and the comparison is made eventually (polling debug_info up to 2 s); the lag is measured, not asserted',
    'histories are interpreted from generated op lists with indices taken modulo the current slot counts (construction, not rejection)',
]

OPS = ['create', 'create', 'managed_same', 'managed_mixed', 'pop_back', 'dup', 'pickle', 'unpickle', 'to_helper', 'transit_to_helper', 'helper_drop', 'helper_back', 'helper_pickle_back', 'store', 'store', 'unstore', 'delete', 'delete', 'managed_return', 'process_arg', 'process_arg_moved', 'helper_exit']
KINDS = ['list', 'dict', 'Value', 'MemoryBlock', 'VCounter']


@st.composite
def history(draw):
    n = draw(st.integers(5, 40))
    ops = []
    for _ in range(n):
        ops.append([draw(st.sampled_from(OPS)), draw(st.integers(0, 7)), draw(st.integers(0, 7))])
    return {'ops': ops}


_RIG = {}


def rig():
    if 'rig' not in _RIG:
        _RIG['rig'] = ml.Rig()
    return _RIG['rig']


def _teardown():
    r = _RIG.pop('rig', None)
    if r is not None:
        r.close()


class Model:
    def __init__(self):
        self.objs = {}  # id -> {'kind', 'refs', 'contents': [ids], 'shm': name}
        self.reached_zero = 0

    def new(self, oid, kind, shm=None):
        self.objs[oid] = {'kind': kind, 'refs': 1, 'contents': [], 'shm': shm}

    def inc(self, oid):
        self.objs[oid]['refs'] += 1

    def dec(self, oid):
        o = self.objs[oid]
        o['refs'] -= 1
        assert o['refs'] >= 0, 'model bug'
        if o['refs'] == 0:
            self.reached_zero += 1
            del self.objs[oid]
            for c in o['contents']:
                self.dec(c)

    def expected(self):
        return {k: v['refs'] for k, v in self.objs.items()}

    def reaches(self, src, dst):
        """is object dst contained (transitively) in object src"""
        seen, todo = set(), [src]
        while todo:
            x = todo.pop()
            if x == dst:
                return True
            if x in seen or x not in self.objs:
                continue
            seen.add(x)
            todo.extend(self.objs[x]['contents'])
        return False


def cheap_call(proxy, kind):
    if kind in ('list', 'dict', 'slist'):
        return len(proxy)
    if kind == 'Value':
        return proxy.get()
    if kind == 'VCounter':
        return proxy.get()
    if kind == 'MemoryBlock':
        return proxy._callmethod('_name')
    return None


def _teardown_hard():
    """after a suspected hang: the server may be wedged, so closing it politely may block too"""
    import threading

    from vf.realproc import reap_children

    t = threading.Thread(target=_teardown, daemon=True)
    t.start()
    t.join(10)
    reap_children()


def run_case(spec):
    from vf.realproc import run_with_watchdog

    hangs = 0
    for attempt in range(3):
        try:
            res = run_with_watchdog(lambda: _run(spec), budget_s=20 * 2**attempt, what='manager history', hang_retries=0, hang_is_violation=False)
        except Inconclusive as e:
            if 'hung' not in str(e):
                _teardown()
                raise
            hangs += 1
            _teardown_hard()  # the next attempt starts a fresh server and helper
            continue
        except BaseException:
            _teardown()  # later cases must start from a fresh, empty server
            raise
        if hangs:
            raise Inconclusive(f'manager history: hung {hangs}x then completed')
        return res
    raise Violation('hang', f"the history did not finish within 20 s, 40 s, 80 s, each time on a fresh server (a step blocked forever): {spec['ops']}", signature=['hang'])


def _run(spec):
    r = rig()
    mgr = r.manager
    model = Model()
    main = []  # [proxy, id, kind]
    transit = []  # [bytes, id, kind]
    helper = {}  # k -> (id, kind)
    hk = [0]
    shm_names = {}
    trace = []
    cross = 0
    nested = 0
    max_lag_ms = 0.0

    def settle(step):
        nonlocal max_lag_ms
        gc.collect()
        # quiesce the main connection(s) and check usability of every live proxy
        for p, oid, kind in main:
            try:
                cheap_call(p, kind)
            except BaseException as e:
                raise Violation('proxy_unusable', f'step {step} {trace[-1]}: live proxy of {kind} {oid} failed: {type(e).__name__}: {e}; history {trace}', signature=['proxy_unusable', kind])
        if helper:
            r.ask('ping')
        want = model.expected()
        t0 = time.monotonic()
        while True:
            have = r.debug_info()
            if have == want:
                break
            if time.monotonic() - t0 > 2.0:
                leaked = {k: v for k, v in have.items() if k not in want}
                missing = {k: v for k, v in want.items() if k not in have}
                wrong = {k: (have[k], want[k]) for k in want if k in have and have[k] != want[k]}
                clause = 'premature_destruction' if missing else ('leak' if leaked else 'refcount_mismatch')
                kinds = {k: model.objs[k]['kind'] for k in list(missing) + list(wrong) if k in model.objs}
                try:
                    raw = {d['id']: (d['type'], d['preview'][:40]) for d in r.manager._debug_info() if d['id'] in leaked}
                    kinds.update(raw)
                except Exception:
                    pass
                raise Violation(clause, f'after step {step} {trace[-1]}: server has {have}, model expects {want}; leaked {leaked} missing {missing} wrong (have, want) {wrong} kinds {kinds}; history {trace}', signature=[clause, trace[-1][0]])
            time.sleep(0.005)
            # keep quiescing: the serving threads drop their last reply only at the next request
            for p, oid, kind in main[:2]:
                cheap_call(p, kind)
        lag = (time.monotonic() - t0) * 1000
        max_lag_ms = max(max_lag_ms, lag)
        for oid, name in list(shm_names.items()):
            exists = os.path.exists('/dev/shm/' + name.lstrip('/'))
            if (oid in model.objs) != exists:
                # destruction of the block may lag like the counts
                t1 = time.monotonic()
                while (oid in model.objs) != os.path.exists('/dev/shm/' + name.lstrip('/')) and time.monotonic() - t1 < 2.0:
                    time.sleep(0.01)
                exists = os.path.exists('/dev/shm/' + name.lstrip('/'))
                if (oid in model.objs) != exists:
                    raise Violation('shared_memory', f"after step {step} {trace[-1]}: /dev/shm/{name} exists={exists} but the block {'is referenced' if oid in model.objs else 'has no reference left'}; history {trace}", signature=['shared_memory', 'leaked' if exists else 'gone'])
            if oid not in model.objs:
                shm_names.pop(oid, None)

    p = q = c = data = proc = pa = pb = conts = cs = None
    for step, (op, a, b) in enumerate(spec['ops']):
        trace.append([op, a, b])
        if op == 'create':
            kind = KINDS[a % len(KINDS)]
            if kind == 'list':
                p = mgr.list([b])
            elif kind == 'dict':
                p = mgr.dict({'k': b})
            elif kind == 'Value':
                p = mgr.Value('i', b)
            elif kind == 'MemoryBlock':
                p = mgr.MemoryBlock(16 + b)
            else:
                p = mgr.VCounter(b)
            oid = p._id
            model.new(oid, kind)
            if kind == 'MemoryBlock':
                shm_names[oid] = p.name
            main.append([p, oid, kind])
        elif op == 'dup' and main:
            p, oid, kind = main[a % len(main)]
            q = pickle.loads(pickle.dumps(p))
            model.inc(oid)
            main.append([q, oid, kind])
        elif op == 'pickle' and main:
            p, oid, kind = main[a % len(main)]
            transit.append([pickle.dumps(p), oid, kind])
            model.inc(oid)
        elif op == 'unpickle' and transit:
            data, oid, kind = transit.pop(a % len(transit))
            main.append([pickle.loads(data), oid, kind])
        elif op == 'to_helper' and main:
            p, oid, kind = main[a % len(main)]
            hk[0] += 1
            r.ask('hold', hk[0], p)
            helper[hk[0]] = (oid, kind)
            model.inc(oid)
            cross += 1
        elif op == 'transit_to_helper' and transit:
            data, oid, kind = transit.pop(a % len(transit))
            hk[0] += 1
            r.ask('hold_pickle', hk[0], data)
            helper[hk[0]] = (oid, kind)
            cross += 1
        elif op == 'helper_drop' and helper:
            k = sorted(helper)[a % len(helper)]
            oid, kind = helper.pop(k)
            r.ask('drop', k)
            model.dec(oid)
        elif op == 'helper_back' and helper:
            k = sorted(helper)[a % len(helper)]
            oid, kind = helper[k]
            p = r.ask('send_back', k)
            model.inc(oid)
            main.append([p, oid, kind])
            cross += 1
        elif op == 'helper_pickle_back' and helper:
            k = sorted(helper)[a % len(helper)]
            oid, kind = helper[k]
            transit.append([r.ask('pickle', k), oid, kind])
            model.inc(oid)
            cross += 1
        elif op == 'store' and main:
            conts = [m for m in main if m[2] in ('list', 'dict')]
            if conts:
                c, cid, ckind = conts[a % len(conts)]
                p, oid, kind = main[b % len(main)]
                if oid != cid and not model.reaches(oid, cid):  # a container holding itself (directly or through others) would never be released: not a history a user can clean up
                    if ckind == 'list':
                        c.append(p)
                        model.objs[cid]['contents'].append(oid)
                        model.inc(oid)
                    else:
                        key = f'n{b % 3}'
                        old = [x for x in model.objs[cid]['contents'] if isinstance(x, tuple) and x[0] == key]
                        c[key] = p
                        model.inc(oid)
                        cont = model.objs[cid]['contents']
                        # dict contents are tracked as (key, id) pairs flattened to ids for the cascade
                        prev = model.objs[cid].setdefault('keys', {})
                        if key in prev:
                            cont.remove(prev[key])
                            model.dec(prev[key])
                        prev[key] = oid
                        cont.append(oid)
                    nested += 1
        elif op == 'unstore' and main:
            conts = [m for m in main if m[2] in ('list', 'dict') and model.objs[m[1]]['contents']]
            if conts:
                c, cid, ckind = conts[a % len(conts)]
                cont = model.objs[cid]['contents']
                if ckind == 'list':
                    # the hosted list holds [initial int] + proxies in append order; drop the last proxy
                    del c[-1]
                    oid = cont.pop()
                    model.dec(oid)
                else:
                    keys = model.objs[cid]['keys']
                    key = sorted(keys)[b % len(keys)]
                    del c[key]
                    oid = keys.pop(key)
                    cont.remove(oid)
                    model.dec(oid)
        elif op == 'delete' and main:
            p, oid, kind = main.pop(a % len(main))
            del p
            gc.collect()
            model.dec(oid)
        elif op == 'managed_return' and main:
            cs = [m for m in main if m[2] == 'VCounter']
            if cs:
                c = cs[a % len(cs)][0]
                p = c.make_managed_list([1, 2, b])
                model.new(p._id, 'list')
                main.append([p, p._id, 'list'])
                nested += 1
        elif op == 'managed_same' and main:
            cs = [m for m in main if m[2] == 'VCounter']
            if cs:
                # kind 'slist': the server-side list is retained by the hosted Counter itself, so what is stored in it is NOT dropped when
                # its last proxy goes (no cascade); it is therefore never used as a container by 'store'
                p = cs[a % len(cs)][0].shared_list()
                if p._id in model.objs:
                    model.inc(p._id)
                else:
                    model.new(p._id, 'slist')
                main.append([p, p._id, 'slist'])
                nested += 1
            else:
                trace[-1].append('skipped')
                continue
        elif op == 'managed_mixed' and main:
            cs = [m for m in main if m[2] == 'VCounter']
            if cs:
                # a hosted method returns plain data with two managed values nested in it
                data = cs[a % len(cs)][0].make_mixed([1, b])
                p = data['hosted']
                q = data['deep'][1]['d']
                if not (hasattr(p, '_callmethod') and hasattr(q, '_callmethod')) or data['plain'] != [1, b]:
                    raise Violation('managed_not_a_proxy', f'make_mixed returned {data!r}', signature=['managed_not_a_proxy'])
                model.new(p._id, 'list')
                model.new(q._id, 'dict')
                main.append([p, p._id, 'list'])
                main.append([q, q._id, 'dict'])
                data = None
                nested += 1
            else:
                trace[-1].append('skipped')
                continue
        elif op == 'pop_back' and main:
            # take a nested proxy back out of a hosted list: the reference moves from the container to this process
            conts = [m for m in main if m[2] == 'list' and model.objs[m[1]]['contents']]
            if conts:
                c, cid, ckind = conts[a % len(conts)]
                p = c.pop()
                oid = model.objs[cid]['contents'].pop()
                if not hasattr(p, '_id') or p._id != oid:
                    raise Violation('wrong_nested_proxy', f'pop() of a hosted list returned {p!r}, expected the proxy of {oid}', signature=['wrong_nested_proxy'])
                main.append([p, oid, model.objs[oid]['kind']])
                nested += 1
            else:
                trace[-1].append('skipped')
                continue
        elif op in ('process_arg', 'process_arg_moved') and main:
            i = a % len(main)
            p, oid, kind = main[i]
            pa, pb = r.mmp.MP_SPAWN_CTX.Pipe()
            proc = r.mmp.Process(target=ml.arg_holder, args=(p, pb))
            proc.start()
            if op == 'process_arg_moved':
                # the parent hands its handle over: it drops its own proxy right after start(), long before the child has rebuilt
                # its copy; meanwhile the serialized argument is the reference that keeps the object alive
                main.pop(i)
                p = None
                gc.collect()
            try:
                proc.join()
                st_, payload = pa.recv() if pa.poll(5) else ('err', 'the child sent no report')
            except BaseException as e:
                st_, payload = 'err', f'{type(e).__name__}: {e}'
            if st_ != 'ok':
                raise Violation('proxy_unusable', f'proxy passed as a Process argument ({op}) failed in the child: {str(payload)[:300]}; history {trace}', signature=['proxy_unusable', op])
            if op == 'process_arg_moved':
                model.dec(oid)
            del proc
            cross += 1
        elif op == 'helper_exit':
            mode = 'drop_first' if a % 2 == 0 else 'abrupt'
            try:
                r.conn.send(('exit', mode))
                r.conn.poll(5) and r.conn.recv()
            except Exception:
                pass
            r.helper.join(10)
            for k, (oid, kind) in list(helper.items()):
                model.dec(oid)
            helper.clear()
            r.start_helper()
        else:
            trace[-1].append('skipped')
            continue
        # no stale local may keep a proxy alive
        p = q = c = data = proc = pa = pb = conts = cs = None
        settle(step)
    # cleanup: drop everything, the server must return to the empty state
    p = q = c = data = proc = pa = pb = conts = cs = None
    trace.append(['cleanup', 0, 0])
    for k in list(helper):
        oid, kind = helper.pop(k)
        r.ask('drop', k)
        model.dec(oid)
    while transit:
        data, oid, kind = transit.pop()
        q = pickle.loads(data)
        del q
        model.dec(oid)
    while main:
        p, oid, kind = main.pop()
        del p
        model.dec(oid)
    gc.collect()
    settle(len(spec['ops']))
    if model.objs:
        # cannot happen for the generated histories (no cycles); if it ever does, the next case must not inherit the leftovers
        _teardown()
        raise Inconclusive(f'harness: the reference model still holds {model.expected()} after dropping everything')
    return CaseInfo(
        nontrivial=(cross >= 1 or nested >= 1) and model.reached_zero >= 1,
        descriptor=spec['ops'],
        classes=('cross_process' if cross else 'single_process', 'nested' if nested else 'flat', f'len{min(len(spec["ops"]) // 10, 4)}0'),
        metrics={'ops': len(spec['ops']), 'max_settle_lag_ms': int(max_lag_ms), 'objects_destroyed': model.reached_zero},
        sample={'history': [t[0] for t in trace][:40]},
    )


RULE = (
    'histories of 5-40 operations over {create list/dict/Value/MemoryBlock/registered class, duplicate by pickle round trip, pickle into transit, unpickle once (here or in the helper process), send to / receive from the helper process, '
    'store in / remove from a hosted list or dict, obtain via managed_list() from a hosted method, pass as Process argument (keeping, or dropping the own proxy of the parent right after start), delete, helper exits (after dropping / abruptly)} against one ServerProcess and one helper client process. '
    'Invariant after every operation (eventually, <= 2 s, after quiescing each connection): debug_info lists exactly the objects with model refs > 0 with those counts; every live proxy is usable; /dev/shm/<name> exists iff the block is referenced; '
    'after dropping everything the server is empty. Non-trivial: >=1 cross-process transfer or nesting and >=1 object reaching count 0; distinct by history.'
)

FAMILIES = [
    Family('F1_refcount_histories', 'real', history(), run_case, quick=120, thorough=6000, shards_quick=12, shards_thorough=16, rule=RULE, shrink=False, teardown=_teardown, retries=5),
]
