"""C05 - streams end cleanly on early stop or failure: no hang, no leak, first failure exactly once."""
import gc

from hypothesis import strategies as st

from vf.core import CaseInfo, Family, Inconclusive, Violation, hang_check, run_sim, sched_strategy
from vf.detsched import DONE, cur

from . import streamlib as sl

ASSUMPTIONS = [
    'threads are preempted only at lock operations, blocking calls, thread start/join and sleeps (detsched), not inside a line',
    'virtual clock: CPU work is instantaneous, durations are generated sleeps',
    'KeyboardInterrupt/SystemExit are not generated (excluded by the property)',
    'the sequential reference interpreter in props/streamlib.py is trusted',
]

SMALL = st.sampled_from([1, 1, 1, 2, 2, 3, 4])


@st.composite
def functional_stage(draw, op, n, allow_stoprequested=False):
    stg = {'op': op}
    nf = draw(st.sampled_from([0, 0, 1, 1, 2]))
    stg['fail'] = sorted(set(draw(st.lists(st.integers(0, max(0, n)), min_size=nf, max_size=nf))))
    stg['exc'] = draw(st.sampled_from(sl.EXC_NAMES))
    stg['delays'] = draw(sl.delays_strategy())
    return stg


@st.composite
def pipeline(draw, threaded_ops, extra_src_exc=()):
    n = draw(st.integers(0, 20))
    spec = {'n': n}
    if draw(st.integers(0, 3)) == 0:
        spec['src_fail'] = {'at': draw(st.integers(0, n)), 'exc': draw(st.sampled_from(sl.EXC_NAMES + list(extra_src_exc)))}
    else:
        spec['src_fail'] = None
    spec['src_delays'] = draw(sl.delays_strategy())
    nst = draw(st.integers(1, 3))
    stages = []
    have_threaded = False
    for i in range(nst):
        ops = list(threaded_ops) + ['map', 'filter']
        if i == nst - 1 and not have_threaded:
            ops = list(threaded_ops)
        op = draw(st.sampled_from(ops))
        if op == 'buffer':
            stages.append({'op': 'buffer', 'maxsize': draw(SMALL)})
            have_threaded = True
        elif op == 'fifo':
            stg = draw(functional_stage(op, n))
            stg['capacity'] = draw(SMALL)
            stg['pool'] = draw(st.sampled_from([1, 2, 3]))
            stg['rx'] = draw(st.booleans())
            stg['rexc'] = draw(st.booleans())
            stages.append(stg)
            have_threaded = True
        elif op in ('parmap', 'parmap_async'):
            stg = draw(functional_stage(op, n))
            stg['c'] = draw(SMALL)
            stg['rx'] = draw(st.booleans())
            stg['rexc'] = draw(st.booleans())
            if draw(st.integers(0, 3)) == 0:
                stg['pre'] = True
                stg['pre_fail'] = sorted(set(draw(st.lists(st.integers(0, max(0, n)), max_size=2))))
            stages.append(stg)
            have_threaded = True
        elif op == 'map':
            stages.append(draw(functional_stage('map', n)))
        elif op == 'filter':
            stg = draw(functional_stage('filter', n))
            stg['mod'] = draw(st.integers(2, 4))
            stages.append(stg)
    spec['stages'] = stages
    kind = draw(st.sampled_from(['all', 'all', 'break', 'close', 'drop']))
    spec['consume'] = {'kind': kind, 'at': draw(st.integers(0, n + 1)) if kind != 'all' else 0}
    spec['cons_delays'] = draw(sl.delays_strategy())
    spec['sched'] = draw(sched_strategy(max_len=150, est_steps=1500, depth=4))
    return spec


def expected(spec):
    it = sl.ref_iter(spec)
    outs, term = sl.consume(it, spec['consume'])
    it.close()
    return outs, term


def run_sync(spec):
    exp_outs, exp_term = expected(spec)
    src = sl.Source(spec['n'], spec.get('src_fail'), spec['src_delays'])
    box = {}

    def scenario():
        sim = cur().sim
        stream = sl.build_stream(spec, src)
        it = iter(stream)
        outs, term = sl.consume(it, spec['consume'], spec['cons_delays'])
        box['in_flight'] = sum(1 for t in sim.threads[1:] if t.state != DONE)
        close_exc = None
        kind = spec['consume']['kind']
        try:
            if kind == 'close' or kind == 'break':
                it.close()
            del it
            del stream
        except sl.SimAbort:
            raise
        except BaseException as e:
            close_exc = sl.norm(e)
        box['alive_after_close'] = [
            (t.idx, t.name) for t in sim.threads[1:] if t.state != DONE
        ]
        return outs, term, close_exc

    out = run_sim(scenario, spec['sched'], horizon=600.0, max_steps=200_000)
    hang_check(out)
    if out.exc is not None:
        raise Violation('scenario_exception', f'{type(out.exc).__name__}: {out.exc}', signature=['exc', type(out.exc).__name__])
    outs, term, close_exc = out.result
    return _finish(spec, out, box, outs, term, close_exc, exp_outs, exp_term)


def _warm():
    spec = {
        'n': 3,
        'src_fail': None,
        'src_delays': [0.0],
        'stages': [{'op': 'buffer', 'maxsize': 3}, {'op': 'parmap', 'c': 2, 'fail': [], 'delays': [0.001]}, {'op': 'parmap_async', 'c': 2, 'fail': [], 'delays': [0.001]}],
        'consume': {'kind': 'all', 'at': 0},
        'cons_delays': [0.0],
        'sched': {'kind': 'default'},
    }
    for _ in range(2):
        run_sync(spec)


def _finish(spec, out, box, outs, term, close_exc, exp_outs, exp_term):
    if close_exc is not None:
        raise Violation('close_raised', f'closing the iterator raised {close_exc}', signature=['close_raised', close_exc[1]])
    if outs != exp_outs or term != exp_term:
        raise Violation(
            'transcript',
            f'consumer saw outs={outs} term={term}; sequential meaning gives outs={exp_outs} term={exp_term}',
            signature=['transcript', 'term' if outs == exp_outs else 'outs'],
        )
    if box['alive_after_close']:
        raise Violation(
            'alive_after_close',
            f"threads still running when the iterator was closed: {box['alive_after_close']}",
            signature=['alive_after_close', sorted({n.split('-')[0].split('_')[0] for _, n in box['alive_after_close']})],
        )
    # "in bounded time": everything a case does serially costs at most the sum of its generated delays; polling intervals and
    # internal timeouts of the code under test are <= 1 s each. A run far beyond that sat in some internal timeout it should not need.
    n = max(1, spec['n'])
    per_elem = max(spec.get('src_delays') or [0.0]) + max(spec.get('cons_delays') or [0.0]) + sum(max(stg.get('delays') or [0.0]) for stg in spec['stages'])
    bound = n * per_elem + n * 0.5 + 30.0
    elapsed = out.sim.now - out.sim.t0
    if elapsed > bound:
        raise Violation('too_slow', f'the case took {elapsed:.1f}s of virtual time; all its generated delays add up to at most {n * per_elem:.2f}s (bound with polling slack {bound:.1f}s): some step sat out an internal timeout', signature=['too_slow'])
    early = spec['consume']['kind'] != 'all' and term == 'stopped'
    failed = isinstance(term, list)
    sizes = []
    for s in spec['stages']:
        if s['op'] == 'buffer':
            sizes.append(f"buffer{min(s['maxsize'], 3)}")
        elif s['op'].startswith('parmap'):
            sizes.append(f"{s['op']}_c{min(s['c'], 3)}")
        elif s['op'] == 'fifo':
            sizes.append(f"fifo_cap{min(s['capacity'], 3)}")
    nontrivial = (early or failed) and box.get('in_flight', 0) > 0
    return CaseInfo(
        nontrivial=nontrivial,
        descriptor=[spec.get('mode'), spec['n'], spec['stages'], spec['consume'], spec.get('src_fail'), out.sim.trace[:60]],
        classes=tuple(['early_stop' if early else ('failure' if failed else 'complete')] + sizes + [f"sched_{spec['sched']['kind']}", f"mode_{spec.get('mode', 'sync')}"]),
        metrics={'steps': out.sim.steps, 'threads': out.sim.max_threads, 'switches': out.sim.switches},
        sample={'mode': spec.get('mode', 'sync'), 'n': spec['n'], 'stages': spec['stages'], 'consume': spec['consume'], 'src_fail': spec.get('src_fail'), 'outs': outs, 'terminal': term, 'switches': out.sim.switches},
    )


def run_async(spec):
    """mode 'async': AsyncStream consumed inside asyncio.run; 'synciter': SyncIter(AsyncStream) consumed synchronously;
    'asynciter': AsyncIter(Stream) consumed inside asyncio.run."""
    import asyncio

    from mpservice.streamer._streamer_async import AsyncIter, SyncIter

    exp_outs, exp_term = expected(spec)
    mode = spec['mode']
    box = {}

    def scenario():
        sim = cur().sim
        close_exc = None
        if mode == 'synciter':
            src = sl.ASource(spec['n'], spec.get('src_fail'), spec['src_delays'])
            it = iter(SyncIter(sl.build_astream(spec, src)))
            outs, term = sl.consume(it, spec['consume'], spec['cons_delays'])
            box['in_flight'] = sum(1 for t in sim.threads[1:] if t.state != DONE)
            try:
                it.close()
                del it
            except sl.SimAbort:
                raise
            except BaseException as e:
                close_exc = sl.norm(e)
        else:

            async def main():
                if mode == 'async':
                    src = sl.ASource(spec['n'], spec.get('src_fail'), spec['src_delays'])
                    ait = sl.build_astream(spec, src).__aiter__()
                else:
                    src = sl.Source(spec['n'], spec.get('src_fail'), spec['src_delays'])
                    ait = AsyncIter(sl.build_stream(spec, src)).__aiter__()
                outs, term = await sl.aconsume(ait, spec['consume'], spec['cons_delays'])
                box['in_flight'] = sum(1 for t in sim.threads[1:] if t.state != DONE)
                cexc = None
                try:
                    await ait.aclose()
                except sl.SimAbort:
                    raise
                except BaseException as e:
                    cexc = sl.norm(e)
                return outs, term, cexc

            outs, term, close_exc = asyncio.run(main())
        box['alive_after_close'] = [(t.idx, t.name) for t in sim.threads[1:] if t.state != DONE]
        return outs, term, close_exc

    out = run_sim(scenario, spec['sched'], horizon=600.0, max_steps=300_000)
    hang_check(out)
    if out.exc is not None:
        raise Violation('scenario_exception', f'{type(out.exc).__name__}: {out.exc}', signature=['exc', type(out.exc).__name__])
    outs, term, close_exc = out.result
    return _finish(spec, out, box, outs, term, close_exc, exp_outs, exp_term)


@st.composite
def apipeline(draw):
    mode = draw(st.sampled_from(['async', 'async', 'synciter', 'asynciter']))
    if mode == 'asynciter':
        spec = draw(pipeline(['buffer', 'parmap', 'parmap_async'], extra_src_exc=('StopRequested',)))
    else:
        spec = draw(pipeline(['buffer', 'parmap', 'parmap_async'], extra_src_exc=('StopRequested',)))
    spec['mode'] = mode
    if spec['consume']['kind'] in ('break', 'drop'):
        spec['consume']['kind'] = 'close'
    return spec


def _warm_async():
    _warm()
    for mode in ('async', 'synciter', 'asynciter'):
        spec = {
            'mode': mode, 'n': 3, 'src_fail': None, 'src_delays': [0.0],
            'stages': [{'op': 'buffer', 'maxsize': 3}, {'op': 'parmap', 'c': 2, 'fail': [], 'delays': [0.001]}, {'op': 'parmap_async', 'c': 2, 'fail': [], 'delays': [0.001]}],
            'consume': {'kind': 'all', 'at': 0}, 'cons_delays': [0.0], 'sched': {'kind': 'default'},
        }
        for _ in range(2):
            run_async(spec)


# ------------------------------------------------------------------------- real processes (sampled)


@st.composite
def proc_spec(draw):
    n = draw(st.integers(0, 30))
    kind = draw(st.sampled_from(['all', 'break', 'close', 'fail', 'src_fail']))
    return {
        'n': n,
        'c': draw(st.sampled_from([1, 2, 3])),
        'kind': kind,
        'at': draw(st.integers(0, n)),
        'rexc': draw(st.booleans()),
        'delays_ms': draw(st.lists(st.sampled_from([0, 0, 1, 5, 20]), min_size=1, max_size=4)),
        'buffer': draw(st.sampled_from([0, 1, 2])),
    }


def run_proc(spec):
    import threading

    from vf.realproc import live_children, reap_children, run_with_watchdog

    from . import targets

    def case():
        from mpservice.streamer import Stream

        base_threads = set(threading.enumerate())
        n, at = spec['n'], spec['at']

        def source():
            for i in range(n):
                if spec['kind'] == 'src_fail' and i == at:
                    raise sl.make_exc('CustomError', i, 'source')
                yield i

        fails = (at,) if spec['kind'] == 'fail' else ()
        s = Stream(source())
        if spec['buffer']:
            s.buffer(spec['buffer'])
        s.parmap(targets.proc_fn, executor='process', concurrency=spec['c'], return_exceptions=spec['rexc'], fails=fails, delays_ms=tuple(spec['delays_ms']))
        it = iter(s)
        outs, term = [], 'end'
        try:
            for y in it:
                outs.append(sl.norm(y))
                if spec['kind'] in ('break', 'close') and len(outs) >= at:
                    term = 'stopped'
                    break
        except BaseException as e:
            term = sl.norm(e)
        it.close()
        del it, s
        import time

        t0 = time.monotonic()
        while (live_children() or [t for t in threading.enumerate() if t not in base_threads and t.is_alive() and t.name != 'case-runner' and not t.name.startswith('QueueFeederThread')]) and time.monotonic() - t0 < 3:
            time.sleep(0.05)
        left_p = live_children()
        left_t = [t.name for t in threading.enumerate() if t not in base_threads and t.is_alive() and t.name != 'case-runner' and not t.name.startswith('QueueFeederThread')]
        return outs, term, left_p, left_t

    try:
        outs, term, left_p, left_t = run_with_watchdog(case, budget_s=15, what='parmap(process) early stop / failure', signature=['hang', 'process_executor'])
    finally:
        reap_children()
    # sequential meaning: the same consumer loop over a plain generator
    def ref():
        for i in range(spec['n']):
            if spec['kind'] == 'src_fail' and i == spec['at']:
                raise sl.make_exc('CustomError', i, 'source')
            if spec['kind'] == 'fail' and i == spec['at']:
                e = ValueError('proc_fn', i)
                if not spec['rexc']:
                    raise e
                yield e
            else:
                yield ('r', i)

    exp, eterm = [], 'end'
    try:
        for y in ref():
            exp.append(sl.norm(y))
            if spec['kind'] in ('break', 'close') and len(exp) >= spec['at']:
                eterm = 'stopped'
                break
    except BaseException as e:
        eterm = sl.norm(e)
    if outs != exp or term != eterm:
        raise Violation('transcript', f'consumer saw outs={outs} term={term}; sequential meaning gives outs={exp} term={eterm}', signature=['transcript', 'process'])
    if left_p or left_t:
        raise Violation('alive_after_close', f'after the iterator was closed: processes {left_p} threads {left_t}', signature=['alive_after_close', 'process'])
    early = term == 'stopped' or isinstance(term, list)
    return CaseInfo(nontrivial=early and spec['n'] > spec['at'] + 1, descriptor=spec, classes=('process_executor', spec['kind'], f"c{spec['c']}", f"buffer{spec['buffer']}"), sample=dict(spec, outs=outs[:5], term=term))


RULE_F1 = (
    'generated sync pipelines (source n<=20 with optional failure incl. after-last, 1-3 stages from map/filter/buffer/parmap(thread)/'
    'parmap(coroutine) with value-keyed failures, preprocessor failures, sizes 1-4) x consumer (all/break/close/drop at k) x schedule '
    '(default/tape/PCT). Non-trivial: an early stop or a failure happened while >=1 helper thread was still unfinished; '
    'distinct by (n, stages, consumer, source failure, schedule trace prefix).'
)

# ------------------------------------------------------------------ F5: collection by the cyclic garbage collector


@st.composite
def gc_spec(draw):
    nops = draw(st.integers(1, 2))
    ops = []
    for i in range(nops):
        kinds = ['buffer', 'parmap', 'parmap_async'] + (['map'] if i < nops - 1 else [])
        k = draw(st.sampled_from(kinds))
        ops.append([k, draw(st.sampled_from([1, 2, 3, 5]))])
    n = draw(st.sampled_from([0, 1, 3, 10, 40, 1000]))
    return {
        'ops': ops,
        'n': n,
        'take': draw(st.integers(0, min(n, 6))),
        'pause_ms': draw(st.sampled_from([0, 100, 300])),
        'where': draw(st.sampled_from(['plain', 'plain', 'threading_critical_section'])),
    }


def run_gc(spec):
    import json
    import os
    import subprocess
    import sys

    env = dict(os.environ)
    try:
        p = subprocess.run([sys.executable, os.path.join(os.path.dirname(os.path.abspath(__file__)), 'gcprobe_main.py'), json.dumps(spec)], capture_output=True, text=True, timeout=60, env=env)
        line = [l for l in p.stdout.splitlines() if l.startswith('{')]
        res = json.loads(line[-1]) if line else None
    except subprocess.TimeoutExpired:
        res = None
        p = None
    if res is None:
        raise Violation('gc_probe_failed', f"the probe interpreter gave no report: {(p.stderr[-600:] if p is not None else 'no exit within 60 s')}", signature=['gc_probe_failed'])
    if not res['collected']:
        if spec['where'] == 'threading_critical_section':
            raise Violation('gc_in_critical_section_deadlock', f"(cyclic collection inside threading's start/stop critical section) the finalization of the abandoned iterator of {spec['ops']} joins a helper thread there and dead-locks the collecting thread", signature=['gc_in_critical_section_deadlock'])
        raise Violation('gc_finalization_hang', f"collecting the abandoned iterator of {spec['ops']} (n={spec['n']}, {res['outs']} taken) did not return within 10 s", signature=['gc_finalization_hang'])
    if res['left_threads']:
        raise Violation('leak_after_gc', f"3 s after the abandoned iterator of {spec['ops']} was collected these helper threads are still alive: {res['left_threads']}", signature=['leak_after_gc'])
    return CaseInfo(
        nontrivial=res['outs'] < spec['n'],
        descriptor=spec,
        classes=('gc', spec['where'], 'abandoned_midway' if res['outs'] < spec['n'] else 'exhausted', *(o[0] for o in spec['ops'])),
        sample=dict(spec, outs=res['outs']),
    )


FAMILIES = [
    Family(
        name='F1_sync',
        engine='sim',
        strategy=pipeline(['buffer', 'parmap', 'parmap', 'parmap_async', 'fifo'], extra_src_exc=('StopRequested', 'StopRequested')),
        run=run_sync,
        quick=3000,
        thorough=200_000,
        shards_quick=8,
        shards_thorough=16,
        rule=RULE_F1,
        setup=_warm,
    ),
    Family(
        name='F2_async',
        engine='sim',
        strategy=apipeline(),
        run=run_async,
        quick=2000,
        thorough=150_000,
        shards_quick=8,
        shards_thorough=16,
        rule='as F1 for AsyncStream pipelines consumed inside asyncio.run on a scheduler-aware event loop (mode async), '
        'SyncIter(AsyncStream) consumed synchronously (mode synciter) and AsyncIter(Stream) (mode asynciter); early stop = explicit aclose()/close(); '
        'leak check after asyncio.run returned. Non-trivial as F1.',
        setup=_warm_async,
    ),
    Family('F4_process_executor', 'real', proc_spec(), run_proc, quick=16, thorough=500, shards_quick=8, shards_thorough=12, shrink=False,
           rule='Stream(generator).[buffer(m)].parmap(fn, executor="process", concurrency 1-3) with real worker processes: consume all / break / close at k / worker failure at k (return_exceptions on/off) / source failure at k; '
           'oracle: transcript == sequential meaning; no worker process and no helper thread left after close (3 s grace for process exit); watchdog 3x rule. Non-trivial: early stop or failure with elements still ahead.'),
    Family('F5_cyclic_gc', 'pure', gc_spec(), run_gc, quick=40, thorough=1500, shards_quick=8, shards_thorough=12, shrink=False,
           rule='real threads, one fresh interpreter per case: Stream(range(n)).[map].{buffer(m) | parmap(thread, c) | parmap(coroutine, c)} x1-2, 0-6 elements taken, then the iterator is abandoned inside a reference cycle '
           'and freed by gc.collect() in a helper thread - in an ordinary context (2/3) or while that thread holds the lock of threading.py under which every thread starts and stops (1/3; an allocation there can trigger a collection). '
           'Oracle: the collection returns within 10 s and no helper thread is alive 3 s later. Non-trivial: abandoned before the end.'),
]
