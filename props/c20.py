"""C20 - child-process log records all reach the parent, once and in order; the child can always exit."""
import logging
import threading
import time

from hypothesis import strategies as st

from vf.core import CaseInfo, Family, Violation

from . import targets

ASSUMPTIONS = [
    'real processes; the OS schedule is sampled. A list-collecting handler on the parent root logger is the observation point',
    'direct Process: when result() returns or raises for a child that ended by itself (return, raise, sys.exit), all its records have been handled (the only synchronisation point a parent has; a parent that exits after join() must not lose records)',
    "a forwarded record is handled iff record.levelno >= getLogger(record.name).getEffectiveLevel() in the parent (the documented rule); the child's targets never configure logging",
    'join()/result() not returning within the watchdog on 3 attempts is a hang',
]


class Collect(logging.Handler):
    def __init__(self, slow_ms=0):
        super().__init__(level=logging.DEBUG)
        self.records = []
        self.slow_ms = slow_ms

    def emit(self, record):
        if record.name.startswith('c20.'):
            if self.slow_ms:
                time.sleep(self.slow_ms / 1000.0)
            self.records.append((record.name, record.levelno, record.getMessage()))


_NAMED = st.fixed_dictionaries({'c20.quiet': st.sampled_from([40, 40, 0, 10])}, optional={'c20': st.sampled_from([0, 10, 30]), 'c20.a': st.sampled_from([0, 10, 20, 40]), 'c20.b': st.sampled_from([0, 10, 20, 40])})
_OLD_NAMED = {'c20.quiet': 40}  # what every case used before the named levels were generated (replay files without the key)


def _cfg(spec):
    return {'parent_level': spec['parent_level'], 'named_levels': spec.get('named_levels', _OLD_NAMED)}


@st.composite
def spec_strategy(draw):
    n = draw(st.sampled_from([0, 1, 3, 10, 50, 300, 1200, 2000]))
    size = draw(st.sampled_from([1, 20, 100, 2000, 20_000, 65_536]))
    while n * size > 8_000_000:
        n //= 2
    spec = {
        'mode': draw(st.sampled_from(['process', 'process', 'process', 'servlet', 'pool'])),
        'n': n,
        'size': size,
        'levels': draw(st.lists(st.sampled_from([10, 20, 30, 40]), min_size=1, max_size=4)),
        'names': draw(st.lists(st.sampled_from(['c20.a', 'c20.b.c', 'c20.quiet']), min_size=1, max_size=3)),
        'tail': draw(st.sampled_from(['last_statement', 'last_statement', 'then_sleep'])),
        'ending': draw(st.sampled_from(['return', 'return', 'raise', 'exit_n'])),
        'slow_ms': draw(st.sampled_from([0, 0, 0, 1, 5])) if n <= 1200 else draw(st.sampled_from([0, 0, 0, 1])),
        'parent_level': draw(st.sampled_from([10, 10, 20, 30, 40])),
        'dup': draw(st.sampled_from([0, 0, 2, 3])),  # every 2nd/3rd record repeats the text of its predecessor
        # levels of named loggers in the parent (0 = inherit): above or below the root's, on a leaf or on an inner node of the hierarchy
        'named_levels': draw(_NAMED),
    }
    if spec['mode'] == 'process' and spec['n'] >= 2 and draw(st.integers(0, 2)) == 0:
        # the parent changes its level settings while the child is running (between two halves of the child's records)
        spec['phase2'] = {'parent_level': draw(st.sampled_from([10, 20, 30, 40])), 'named_levels': draw(_NAMED)}
    return spec


def expected_records(spec):
    out = []
    cfg = _cfg(spec)
    for i in range(spec['n']):
        if spec.get('phase2') and i == spec['n'] // 2:
            out.append(('c20.sync', 50, 'SYNC'))
            cfg = spec['phase2']
        name = spec['names'][i % len(spec['names'])]
        lvl = spec['levels'][i % len(spec['levels'])]
        if lvl >= targets.effective_level(name, cfg):
            out.append((name, lvl, targets.log_message(i, spec['size'], spec.get('dup', 0))))
    return out


def run_case(spec):
    from vf.realproc import reap_children, run_with_watchdog

    root = logging.getLogger()
    h = Collect(spec['slow_ms'])
    old_level = root.level
    root.addHandler(h)
    targets.apply_parent_levels(_cfg(spec))
    try:
        try:
            res = run_with_watchdog(lambda: targets.log_case(spec), budget_s=20 if spec['n'] * max(1, spec['slow_ms']) < 1500 else 40, what=f"logging child ({spec['mode']}, {spec['n']}x{spec['size']}B)", signature=['hang', spec['mode']])
        finally:
            reap_children()
        # the records are handled by a parent-side thread: give it a bounded moment to finish what it has been handed
        want = expected_records(spec)
        t0 = time.monotonic()
        while len(h.records) < len(want) and time.monotonic() - t0 < 5:
            time.sleep(0.02)
        got = list(h.records)
    finally:
        root.removeHandler(h)
        targets.apply_parent_levels({'parent_level': old_level, 'named_levels': {}})
    if res.get('error'):
        raise Violation(res['error'][0], res['error'][1], signature=[res['error'][0], spec['mode']])
    if res.get('handled_at_return') is not None and res['handled_at_return'] < len(want) and got == want:
        raise Violation('records_pending_at_return', f"result() returned/raised while {len(want) - res['handled_at_return']} of {len(want)} records of the (ended) child were still unhandled; a parent that exits now loses them (mode {spec['mode']}, ending {spec['ending']}, {spec['n']} x {spec['size']} B, handler {spec['slow_ms']} ms/record)", signature=['records_pending_at_return', spec['ending']])
    if got != want:
        if len(got) < len(want) and got == want[: len(got)]:
            raise Violation('records_lost', f"{len(want) - len(got)} of {len(want)} records never reached the parent (the last {len(want) - len(got)}); mode {spec['mode']}, {spec['n']} x {spec['size']} B, ending {spec['ending']}, {spec['tail']}", signature=['records_lost', spec['mode']])
        dup = len(got) != len(set(got)) if spec['size'] < 100_000 else False
        k = next((i for i, (a, b) in enumerate(zip(got, want)) if a != b), min(len(got), len(want)))
        raise Violation('records_differ', f'first difference at record {k}: got {str(got[k:k+1])[:120]} expected {str(want[k:k+1])[:120]} (got {len(got)}, expected {len(want)}, duplicates {dup})', signature=['records_differ', spec['mode']])
    total = spec['n'] * spec['size']
    return CaseInfo(
        nontrivial=total > 65536 or (spec['tail'] == 'last_statement' and spec['n'] > 0),
        descriptor={k: v for k, v in spec.items()},
        classes=(spec['mode'], 'beyond_pipe_buffer' if total > 65536 else 'small', spec['tail'], spec['ending'], 'slow_handler' if spec['slow_ms'] else 'fast_handler', 'levels_change_midway' if spec.get('phase2') else 'levels_fixed', 'named_below_root' if any(0 < v < spec['parent_level'] for v in _cfg(spec)['named_levels'].values()) else 'named_not_below_root'),
        metrics={'bytes': total, 'records': len(want)},
        sample={k: v for k, v in spec.items()},
    )


RULE = (
    'child started as mpservice Process / as a ProcessServlet worker / in a ProcessPoolExecutor emits 0-2000 records of 1 B-64 kB (total up to 8 MB) with generated logger names and levels; '
    'the last record is the last statement of the target or is followed by a sleep; the target returns, raises or sys.exit(n); the parent handler is immediate or slow (1 or 5 ms per record); parent root level DEBUG..ERROR, levels of named loggers (leaf and inner node of the hierarchy) above or below that of the root, or inherited; in 1/3 of the direct-Process cases the parent changes all these settings once while the child runs (between the two halves of the records of the child, synchronised by a CRITICAL marker record and an Event). '
    'Oracle: the parent-side collecting handler holds exactly the emitted records that pass the parent levels in force when they were emitted (the documented effective-level rule of logging, written out in targets.effective_level), once each, in emission order; join()/result() return, and (direct Process) all records have been handled when result() returns or raises. '
    'Non-trivial: total bytes > 64 kB or the last record is emitted immediately before the end; distinct by case.'
)

FAMILIES = [
    Family('F1_log_forwarding', 'real', spec_strategy(), run_case, quick=96, thorough=3000, shards_quick=12, shards_thorough=16, rule=RULE, shrink=False),
]
