"""C07 - an abandoned request (timeout, dropped stream) never harms the server."""
from hypothesis import strategies as st

from vf.core import CaseInfo, Family, Violation, hang_check, sched_strategy

from . import c02
from . import serverlib as sv

ASSUMPTIONS = [
    'deadline expiry is placed relative to the result arrival by (a) generating timeouts equal to / bracketing the generated service time and '
    '(b) bounded forced clock advances (TIME stalls <= 50 ms, budget 0.5 s virtual) so that expiry can land inside the gather thread check-then-set window',
    'line-granular preemption inside mpserver/_server.py in the line family',
    'probe requests use a 1000 s virtual timeout, far above the stall budget',
]


@st.composite
def spec_strategy(draw, lines=False):
    if draw(st.integers(0, 3)) == 0:
        tree = draw(sv.tree_strategy(depth=1, batch=True))
    else:
        tree = {'t': 'w', 'tag': 'A', 'n': draw(st.sampled_from([1, 2])), 'pre': False}
        if draw(st.integers(0, 2)) == 0:
            tree = {'t': 'seq', 'ch': [tree, {'t': 'w', 'tag': 'B', 'n': 1, 'pre': False}]}
    nodes = sv.tree_tags(tree)
    reqs = {}
    callers = []
    rid = 0
    n_ab = draw(st.integers(1, 4))
    grid = [0.001, 0.002, 0.005, 0.01, 0.02]
    for _ in range(n_ab):
        plan = {'d': {}, 'f': {}, 'pf': {}, 'r': draw(st.integers(0, 1))}
        for n in nodes:
            plan['d'][n['tag']] = draw(st.sampled_from(grid))
        if draw(st.integers(0, 4)) == 0:
            plan['f'][draw(st.sampled_from(nodes))['tag']] = draw(st.sampled_from(sv.EXC_NAMES))
        reqs[str(rid)] = plan
        service = sum(plan['d'].values())
        timeout = max(0.0001, service + draw(st.sampled_from([0.0, 0.0, 0.0, -0.001, 0.001, -0.0005, 0.0005, 0.01])))
        callers.append([{'rid': rid, 'timeout': round(timeout, 6), 'bp': False, 'think': draw(st.sampled_from([0, 0, 0.001]))}])
        rid += 1
    streams = []
    if draw(st.booleans()):
        k = draw(st.integers(1, 6))
        sr = []
        for _ in range(k):
            plan = {'d': {n['tag']: draw(st.sampled_from([0.0] + grid)) for n in nodes}, 'f': {}, 'pf': {}, 'r': 0}
            plan['d'] = {t: d for t, d in plan['d'].items() if d}
            reqs[str(rid)] = plan
            sr.append(rid)
            rid += 1
        streams.append({'rids': sr, 'abandon': draw(st.integers(0, k)), 'cons_delay': draw(st.sampled_from([0, 0.002]))})
    nprobe = draw(st.integers(1, 4))
    probe_rids = []
    for _ in range(nprobe):
        reqs[str(rid)] = {'d': {}, 'f': {}, 'pf': {}, 'r': draw(st.integers(0, 1))}
        probe_rids.append(rid)
        rid += 1
    return {
        'tree': tree,
        'capacity': draw(st.sampled_from([1, 2, 4, 16])),
        'reqs': reqs,
        'callers': callers,
        'streams': streams,
        'probe_rids': probe_rids,
        'sched': draw(sched_strategy(max_len=250 if not lines else 500, est_steps=2500 if not lines else 8000, depth=4, stalls=3)),
    }


def run_case(spec, lines=False):
    obs = sv.run_server(spec, probes=len(spec['probe_rids']), max_stall=0.05, stall_budget=0.5, lines=lines)
    return _judge(spec, obs, lines, 'sync')


def _judge(spec, obs, lines, flavour):
    out = obs.out
    hang_check(out)
    if out.exc is not None:
        raise Violation('scenario_exception', f'{type(out.exc).__name__}: {out.exc}', signature=['exc', type(out.exc).__name__])
    if obs.enter_exc is not None:
        raise Violation('enter_failed', f'{type(obs.enter_exc).__name__}: {obs.enter_exc}', signature=['enter'])
    tree = spec['tree']
    reqs = {int(k): v for k, v in spec['reqs'].items()}
    poison = sv.batch_poison_map(tree, reqs, obs.log)
    timed_out = 0
    for rec in obs.calls:
        rec['forced'] = poison.get(rec['rid'])
        if rec['kind'] == 'timeout':
            timed_out += 1
        bad = c02.judge_call(rec, tree, reqs, spec['capacity'], {'max_backlog': obs.max_backlog, 'late_tol': None})
        if bad:
            raise Violation('abandoned_' + bad[0], bad[1], signature=['abandoned_' + bad[0]])
    for s in obs.streams:
        term = s.get('term')
        if isinstance(term, tuple):
            raise Violation('stream_raised', f'{type(term[1]).__name__}: {term[1]}', signature=['stream_raised', type(term[1]).__name__])
    for rec in obs.probe_results:
        # (a probe that shares a batch with an abandoned poison element legitimately fails with the batch)
        rec['forced'] = poison.get(rec['rid'])
        if rec['kind'] in ('timeout', 'backlogfull') or (rec['kind'] != 'value' and not rec['forced']):
            raise Violation('probe_unanswered', f"probe request {rec['rid']} after the abandonments got {rec['kind']}: {rec['payload']!r}", signature=['probe_unanswered', rec['kind']])
        bad = c02.judge_call(rec, tree, reqs, spec['capacity'], None)
        if bad:
            raise Violation('probe_' + bad[0], bad[1], signature=['probe_' + bad[0]])
    ci = obs.cycle_info[0] if obs.cycle_info else None
    if ci is None:
        raise Violation('no_exit', 'scenario did not reach __exit__', signature=['no_exit'])
    if ci['gather_alive'] != 'is_alive':
        raise Violation('gather_dead', f"gather thread is {ci['gather_alive']} before exit", signature=['gather_dead'])
    if obs.exit_exc is not None:
        raise Violation('exit_raised', f'{type(obs.exit_exc).__name__}: {obs.exit_exc}', signature=['exit_raised', type(obs.exit_exc).__name__])
    if ci['alive_after_exit']:
        raise Violation('alive_after_exit', f"threads alive after __exit__: {ci['alive_after_exit']}", signature=['alive_after_exit'])
    abandoned_stream = any(s.get('term') == 'abandoned' for s in obs.streams)
    return CaseInfo(
        nontrivial=timed_out >= 1 or abandoned_stream,
        descriptor=[tree, spec['reqs'], spec['callers'], spec['streams'], out.sim.trace[:60]],
        classes=tuple([flavour, f'timeouts{min(timed_out, 3)}', 'abandoned_stream' if abandoned_stream else 'no_abandoned_stream', f"sched_{spec['sched']['kind']}", 'stalled' if out.sim.stall_used > 0 else 'nostall', 'lines' if lines else 'syncpoints']),
        metrics={'steps': out.sim.steps, 'timed_out': timed_out},
        sample={'tree': tree, 'calls': [(c[0]['rid'], c[0]['timeout'], sum(reqs[c[0]['rid']]['d'].values())) for c in spec['callers']], 'streams': spec['streams'], 'outcomes': [(r['rid'], r['kind']) for r in obs.calls], 'probes': [(r['rid'], r['kind']) for r in obs.probe_results]},
    )


def run_async(spec):
    obs = sv.run_async_server(spec, probes=len(spec['probe_rids']))
    return _judge(spec, obs, False, 'async')


def run_case_lines(spec):
    return run_case(spec, lines=True)


def _setup_lines():
    # optional observer: if the module has been renamed/moved the family still runs, with lock/blocking preemption points only
    try:
        import importlib

        from vf import linemon

        linemon.install([importlib.import_module('mpservice.mpserver._server').__file__])
    except Exception:
        pass
    _warm()


def _warm():
    spec = {
        'tree': {'t': 'w', 'tag': 'A', 'n': 1, 'pre': False},
        'capacity': 4,
        'reqs': {'0': {'d': {'A': 0.01}, 'f': {}, 'pf': {}, 'r': 0}, '1': {'d': {}, 'f': {}, 'pf': {}, 'r': 0}},
        'callers': [[{'rid': 0, 'timeout': 0.01, 'bp': False, 'think': 0}]],
        'streams': [],
        'probe_rids': [1],
        'sched': {'kind': 'default'},
    }
    for _ in range(2):
        try:
            run_case(spec)
        except Violation:
            pass


RULE = (
    '1-4 calls whose timeout equals or brackets (+-0.5/1 ms, +10 ms) the generated service time, optional Server.stream closed early with futures pending, then 1-4 probe calls; '
    'thread servlet trees, capacity 1/2/4/16; schedules default/tape/PCT (expiry races of timed waits are schedule choices) with bounded forced clock advances; second family adds line-granular preemption in _server.py. Oracle: abandoned call = TimeoutError at/after its deadline or its own '
    'reference result; probes answered with their reference result; gather thread alive; __exit__ returns, nothing left running. Non-trivial: >=1 call timed out or a stream was abandoned; distinct by (tree, requests, schedule prefix).'
)

FAMILIES = [
    Family('F1_timeouts_streams', 'sim', spec_strategy(), run_case, quick=2500, thorough=100_000, shards_quick=10, rule=RULE, setup=_warm),
    Family('F2_line_preemption', 'sim', spec_strategy(lines=True), run_case_lines, quick=500, thorough=30_000, shards_quick=6, rule=RULE, setup=_setup_lines),
    Family('F3_async_server', 'sim', spec_strategy(), run_async, quick=1200, thorough=60_000, shards_quick=8, rule='as F1 for AsyncServer (caller deadline via asyncio.wait_for on the loop, gather thread off the loop); probes and clean exit likewise.', setup=_warm),
]
