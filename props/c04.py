"""C04 - a failing request fails alone, with its original error (type, args, traceback of the failure site)."""
from hypothesis import strategies as st

from vf.core import CaseInfo, Family, Inconclusive, Violation, hang_check, sched_strategy

from . import c02
from . import serverlib as sv

ASSUMPTIONS = [
    'thread servlets under the deterministic scheduler; a sampled real family crosses a process boundary with ProcessServlet',
    'with thread queues the caller receives the original exception object, after a process queue a rebuilt one for which is_remote_exception is true: '
    'either carrier is accepted, class + args + failure-site function name in the traceback text are always required',
    'a batched worker is poisonable: the whole call raises if the batch contains a poison element; batch membership is taken from the instrumented call log',
    'which member "wins" a fail-fast EnsembleError is schedule-dependent: every error present must belong to a member that really fails for this request',
]


@st.composite
def spec_strategy(draw):
    tree = draw(sv.tree_strategy(depth=draw(st.integers(0, 2)), batch=True))
    nodes = sv.tree_tags(tree)
    nreq = draw(st.integers(2, 14))
    nfail = draw(st.integers(1, min(4, nreq)))
    failing = set(draw(st.lists(st.integers(0, nreq - 1), min_size=nfail, max_size=nfail)))
    reqs = {}
    for rid in range(nreq):
        plan = {'d': {}, 'f': {}, 'pf': {}, 'r': draw(st.integers(0, 1))}
        for n in nodes:
            d = draw(st.sampled_from([0.0, 0.0, 0.001, 0.004, 0.02]))
            if d:
                plan['d'][n['tag']] = d
        if rid in failing:
            k = draw(st.integers(1, min(2, len(nodes))))
            for n in draw(st.lists(st.sampled_from(nodes), min_size=k, max_size=k)):
                if n.get('pre') and draw(st.booleans()):
                    plan['pf'][n['tag']] = draw(st.sampled_from(sv.EXC_NAMES))
                else:
                    plan['f'][n['tag']] = draw(st.sampled_from(sv.EXC_NAMES))
        reqs[str(rid)] = plan
    ncallers = draw(st.integers(1, 5))
    callers = [[] for _ in range(ncallers)]
    stream_rids = []
    for rid in range(nreq):
        o = draw(st.integers(0, ncallers))
        if o < ncallers:
            callers[o].append({'rid': rid, 'timeout': 'long', 'bp': False, 'think': draw(st.sampled_from([0, 0, 0, 0.001, 0.01]))})
        else:
            stream_rids.append(rid)
    streams = [{'rids': stream_rids, 'abandon': None, 'cons_delay': 0}] if stream_rids else []
    return {'tree': tree, 'capacity': draw(st.sampled_from([2, 4, 32])), 'reqs': reqs, 'callers': [c for c in callers if c], 'streams': streams, 'sched': draw(sched_strategy(max_len=200, est_steps=4000, depth=4))}


def site_names(exp):
    """function names that must show in the traceback text of the error for expectation `exp`"""
    if exp['kind'] == 'err':
        return ['fail_in_pre'] if exp.get('site', '').startswith('pre:') else ['fail_in_call']
    return []


def check_tb(rid, exp, e, tb_text):
    from mpservice.multiprocessing.remote_exception import RemoteException, get_remote_traceback, is_remote_exception

    if exp['kind'] == 'err':
        for name in site_names(exp):
            if name not in tb_text:
                raise Violation('traceback_lost', f'request {rid}: error {sv.exc_norm(e)} does not carry the traceback of its failure site ({name}); text: {tb_text[-600:]}', signature=['traceback_lost', 'remote' if is_remote_exception(e) else 'local'])
    elif exp['kind'] == 'enserr':
        z = e.args[1]
        for i, (y, m) in enumerate(zip(z['y'], exp['members'])):
            if y is None or m['kind'] != 'err':
                continue
            if isinstance(y, RemoteException):
                txt = y.tb or ''
            elif isinstance(y, BaseException):
                txt = get_remote_traceback(y) if is_remote_exception(y) else sv.tb_text(y)
            else:
                continue
            for name in site_names(m):
                if name not in txt:
                    raise Violation('traceback_lost', f'request {rid}: EnsembleError member {i} lost the traceback of its failure site ({name}); text: {txt[-400:]}', signature=['traceback_lost', 'ensemble_member'])


def judge(spec, obs, real=False):
    out = getattr(obs, 'out', None)
    tree = spec['tree']
    reqs = {int(k): v for k, v in spec['reqs'].items()}
    poison = sv.batch_poison_map(tree, reqs, obs.log)
    overlap = False
    shared_batch = False
    recs = list(obs.calls)
    for s in obs.streams:
        term = s.get('term')
        if isinstance(term, tuple):
            raise Violation('stream_raised', f'{type(term[1]).__name__}: {term[1]}', signature=['stream_raised', type(term[1]).__name__])
        if len(s['items']) != len(s['spec']['rids']):
            raise Violation('stream_count', f"stream of {len(s['spec']['rids'])} inputs gave {len(s['items'])} outputs", signature=['stream_count'])
        for k, (x, y) in enumerate(s['items']):
            xr = sv.unpack(x)[0]
            if xr != s['spec']['rids'][k]:
                raise Violation('stream_order', f'position {k}: input {xr}', signature=['stream_order'])
            recs.append({'rid': xr, 'timeout': 'long', 'bp': False, 't0': s['t0'], 't1': s['t1'], 'kind': 'exc' if isinstance(y, BaseException) else 'value', 'payload': y, 'tb_text': sv.tb_text(y) if isinstance(y, BaseException) else None})
    fails = [r for r in recs if r['kind'] == 'exc']
    oks = [r for r in recs if r['kind'] == 'value']
    for rec in recs:
        rid = rec['rid']
        forced = poison.get(rid)
        if real:
            # no call log from child processes: a request that passes a batched worker together with a poison element may legitimately fail with it
            forced = None
        rec['forced'] = forced
        exp = sv.expected(tree, rid, reqs[rid], forced)
        bad = c02.judge_call(rec, tree, reqs, spec['capacity'], None)
        if bad:
            if real and rec['kind'] in ('exc', 'value'):
                # batch membership is unobservable across processes: the request may have shared a batch with ANY poison element of a
                # batched worker it passes; accept the outcome if it matches the reference under one of these possibilities
                btags = [n['tag'] for n in sv.tree_tags(tree) if (n.get('bs') or 0) > 0]
                alts = []
                for t in btags:
                    for r2, p2 in reqs.items():
                        if p2['f'].get(t):
                            alts.append({t: sv.exc_norm(sv.make_exc(p2['f'][t], t, r2))})
                obs_n = sv.norm_outcome('value' if rec['kind'] == 'value' else 'exc', rec['payload'])
                if any(sv.match_expected(obs_n, sv.expected(tree, rid, reqs[rid], alt)) is None for alt in alts):
                    continue
            clause = {'wrong_outcome': 'innocent_affected' if exp['kind'] == 'ok' else 'wrong_error'}.get(bad[0], bad[0])
            raise Violation(clause, bad[1], signature=[clause])
        if rec['kind'] == 'exc':
            check_tb(rid, exp, rec['payload'], rec.get('tb_text') or '')
        if forced:
            shared_batch = True
    for f in fails:
        for o in oks:
            if f['t0'] < o['t1'] and o['t0'] < f['t1']:
                overlap = True
    return overlap, shared_batch, len(fails), len(oks)


def run_case(spec):
    obs = sv.run_server(spec, strip=False)
    out = obs.out
    hang_check(out)
    if obs.enter_exc is not None:
        raise Violation('enter_failed', f'{type(obs.enter_exc).__name__}: {obs.enter_exc}', signature=['enter'])
    overlap, shared, nf, nok = judge(spec, obs)
    return CaseInfo(
        nontrivial=(overlap or shared) and nf >= 1 and nok >= 1,
        descriptor=[spec['tree'], spec['reqs'], spec['callers'], spec['streams'], out.sim.trace[:50]],
        classes=('tree_' + spec['tree']['t'], 'overlap' if overlap else 'no_overlap', 'shared_batch' if shared else 'no_shared_batch', f'fails{min(nf, 3)}'),
        metrics={'steps': out.sim.steps, 'failed': nf, 'ok': nok},
        sample={'tree': spec['tree'], 'failing': {k: {'f': v['f'], 'pf': v['pf']} for k, v in spec['reqs'].items() if v['f'] or v['pf']}, 'outcomes': [(r['rid'], r['kind']) for r in obs.calls][:12]},
    )


# ---------------------------------------------------------------------------- real processes (sampled)


@st.composite
def real_spec(draw):
    a = {'t': 'w', 'tag': 'A', 'n': draw(st.sampled_from([1, 2])), 'pre': draw(st.booleans()), 'proc': True}
    if draw(st.booleans()):
        a['bs'] = draw(st.sampled_from([0, 2]))
        if a['bs'] > 1:
            a['bw'] = 0.01
    shape = draw(st.sampled_from(['single', 'seq', 'ens']))
    b = {'t': 'w', 'tag': 'B', 'n': 1, 'pre': draw(st.booleans()), 'proc': draw(st.booleans())}
    if draw(st.booleans()):
        b['bs'] = 2
        b['bw'] = 0.01
    tree = a if shape == 'single' else ({'t': 'seq', 'ch': [a, b]} if shape == 'seq' else {'t': 'ens', 'ff': draw(st.booleans()), 'ch': [a, b]})
    nodes = sv.tree_tags(tree)
    nreq = draw(st.integers(2, 8))
    reqs = {}
    for rid in range(nreq):
        plan = {'d': {}, 'f': {}, 'pf': {}, 'r': 0}
        if draw(st.integers(0, 1)) == 0:
            n = draw(st.sampled_from(nodes))
            if n.get('pre') and draw(st.integers(0, 2)) > 0:
                plan['pf'][n['tag']] = draw(st.sampled_from(sv.EXC_NAMES))
            else:
                plan['f'][n['tag']] = draw(st.sampled_from(sv.EXC_NAMES))
        if draw(st.booleans()):
            plan['d'][draw(st.sampled_from(nodes))['tag']] = draw(st.sampled_from([0.002, 0.01]))
        reqs[str(rid)] = plan
    half = nreq // 2
    return {'tree': tree, 'capacity': 16, 'reqs': reqs, 'callers': [[{'rid': r, 'timeout': 'long', 'bp': False, 'think': 0} for r in range(half)]], 'streams': [{'rids': list(range(half, nreq)), 'abandon': None, 'cons_delay': 0}]}


def run_real(spec):
    from vf.realproc import run_with_watchdog

    obs = run_with_watchdog(lambda: sv.run_server_real(spec), budget_s=30, what='ProcessServlet server')
    if obs.enter_exc is not None:
        raise Violation('enter_failed', f'{type(obs.enter_exc).__name__}: {obs.enter_exc}', signature=['enter'])
    if obs.exit_exc is not None:
        raise Violation('exit_raised', f'{type(obs.exit_exc).__name__}: {obs.exit_exc}', signature=['exit_raised'])
    overlap, shared, nf, nok = judge(spec, obs, real=True)
    return CaseInfo(nontrivial=nf >= 1 and nok >= 1, descriptor=spec, classes=('real', 'tree_' + spec['tree']['t'], f'fails{min(nf, 3)}'), sample={'tree': spec['tree'], 'outcomes': [(r['rid'], r['kind']) for r in obs.calls]})


def _warm():
    c02._warm()


RULE = (
    'C02 harness with the fault dimension primary: 1-4 failing requests among 2-14, failure site = preprocess / call of any worker / any ensemble member / any stage, exception class from a zoo '
    '(builtin, custom, custom with non-trivial constructor), batching with poisonable batch workers, concurrent callers and streams, schedules default/sparse/tape/PCT; F2 (real): ProcessServlet members. '
    'Oracle: failing request raises its generated class+args with the failure-site function in the traceback text; EnsembleError per the documented rules; everybody else gets the reference result; '
    'failed set == union of logged poison batches. Non-trivial: a failing and a succeeding request overlapped in time or shared a batch; distinct by (tree, requests, scripts, schedule prefix).'
)

FAMILIES = [
    Family('F1_faults', 'sim', spec_strategy(), run_case, quick=2500, thorough=120_000, shards_quick=12, rule=RULE, setup=_warm),
    Family('F2_process_boundary', 'real', real_spec(), run_real, quick=16, thorough=500, shards_quick=4, shards_thorough=10, rule=RULE, shrink=False),
]
