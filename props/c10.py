"""C10 - tee forks see identical streams and cannot wedge each other."""
import threading
import time

from hypothesis import strategies as st

from vf.core import CaseInfo, Family, Violation, hang_check, run_sim, sched_strategy
from vf.detsched import SimAbort

from . import streamlib as sl

ASSUMPTIONS = [
    'every fork is consumed to its end by its own thread (the property presumes every fork keeps being consumed)',
    'line-granular preemption: every executed source line of streamer/_tee.py is a scheduling point (family F2); lock/blocking points only in F1',
    'horizon 50 virtual s >> the 0.1 s poll interval of the fork step: spinning forever on the source lock is decided as a horizon verdict',
]


@st.composite
def spec_strategy(draw, lines=False):
    nforks = draw(st.sampled_from([2, 2, 3]))
    bsize = draw(st.sampled_from([2, 2, 3, 4, 5]))
    kind = draw(st.sampled_from(['empty', 'one', 'within', 'beyond', 'beyond']))
    n = {'empty': 0, 'one': 1, 'within': draw(st.integers(2, bsize)), 'beyond': draw(st.integers(bsize + 1, 12))}[kind]
    fail = None
    if draw(st.integers(0, 2)) == 0:
        fail = {'at': draw(st.integers(0, n)), 'exc': draw(st.sampled_from(sl.EXC_NAMES))}
    return {
        'nforks': nforks,
        'buffer_size': bsize,
        'n': n,
        'fail': fail,
        'src_delays': draw(sl.delays_strategy(3)),
        'fork_delays': [draw(sl.delays_strategy(3)) for _ in range(nforks)],
        'start_delays': [draw(st.sampled_from([0, 0, 0.001, 0.02])) for _ in range(nforks)],
        'survivor': fail is not None and draw(st.booleans()),
        'sched': draw(sched_strategy(max_len=300 if lines else 150, est_steps=2500 if lines else 600, depth=4)),
    }


class SurvivorSource:
    """an iterator object (not a generator) that keeps working after it has raised: whoever pulls it again after the failure gets
    the elements behind the failure point. The forks must all end with the failure, so nobody may pull again."""

    def __init__(self, n, fail, delays):
        self.n, self.fail, self.delays = n, fail, delays
        self.i = 0
        self.pulled = 0
        self.failed = False
        self.pulls_after_failure = 0

    def __iter__(self):
        return self

    def __next__(self):
        if self.failed:
            self.pulls_after_failure += 1
        i = self.i
        d = self.delays[i % len(self.delays)]
        if d > 0:
            time.sleep(d)
        if self.fail is not None and not self.failed and self.fail['at'] == min(i, self.n):
            self.failed = True
            self.i += 1
            raise sl.make_exc(self.fail['exc'], self.fail['at'], 'source')
        if i >= self.n + (1 if self.failed else 0) and not self.failed:
            raise StopIteration
        if self.failed and i > self.n + 3:
            raise StopIteration
        self.i += 1
        if not self.failed:
            self.pulled += 1
        return i if not self.failed else 1000 + i


def run_case(spec, lines=False):
    from mpservice.streamer import tee

    n = spec['n']
    nf = spec['nforks']
    src = SurvivorSource(n, spec['fail'], spec['src_delays']) if spec.get('survivor') else sl.Source(n, spec['fail'], spec['src_delays'])
    got = [[] for _ in range(nf)]
    ends = [None] * nf
    box = {'active': False, 'max_ahead': 0, 'bad': None, 'diverged': 0}
    bound = spec['buffer_size'] + 2

    def on_step(sim):
        if box['active']:
            m = min(len(g) for g in got)
            ahead = src.pulled - m
            if ahead > box['max_ahead']:
                box['max_ahead'] = ahead
            if ahead > bound and box['bad'] is None:
                box['bad'] = (ahead, src.pulled, m, sim.steps)
            d = max(len(g) for g in got) - m
            if d > box['diverged']:
                box['diverged'] = d

    def scenario():
        forks = tee(src, nf, buffer_size=spec['buffer_size'])

        def consume(k):
            if spec['start_delays'][k]:
                time.sleep(spec['start_delays'][k])
            delays = spec['fork_delays'][k]
            try:
                for x in forks[k]:
                    got[k].append(x)
                    d = delays[(len(got[k]) - 1) % len(delays)]
                    if d > 0:
                        time.sleep(d)
                ends[k] = 'end'
            except SimAbort:
                raise
            except BaseException as e:
                ends[k] = sl.norm(e)

        ths = [threading.Thread(target=consume, args=(k,), name=f'harness-fork-{k}') for k in range(nf)]
        box['active'] = True
        for t in ths:
            t.start()
        for t in ths:
            t.join()
        box['active'] = False
        return True

    out = run_sim(scenario, spec['sched'], horizon=50.0, max_steps=400_000, on_step=on_step, lines=lines)
    hang_check(out)
    fail = spec['fail']
    n_ok = n if fail is None else min(n, fail['at'])
    want = list(range(n_ok))
    want_end = 'end' if fail is None else sl.norm(sl.make_exc(fail['exc'], fail['at'], 'source'))
    for k in range(nf):
        if got[k] != want:
            raise Violation('fork_content', f'fork {k} received {got[k]}, source produced {want}', signature=['fork_content'])
    for k in range(nf):
        if ends[k] != want_end:
            raise Violation('fork_ending', f'fork {k} ended with {ends[k]}, the source ended with {want_end} (all endings: {ends})', signature=['fork_ending', 'exhaustion_instead_of_error' if ends[k] == 'end' else 'other'])
    if getattr(src, 'pulls_after_failure', 0):
        raise Violation('pulled_after_failure', f'the source was pulled {src.pulls_after_failure} more time(s) after it had raised {want_end}', signature=['pulled_after_failure'])
    if src.pulled != n_ok:
        raise Violation('source_pulls', f'source produced {src.pulled} elements for a stream of {n_ok}', signature=['source_pulls'])
    if box['bad'] is not None:
        a, p, m, step = box['bad']
        raise Violation('window', f'source pulled {p}, slowest fork received {m}: {a} > buffer_size+2 = {bound} at step {step}', signature=['window'])
    blocked_on_window = box['max_ahead'] >= spec['buffer_size']
    return CaseInfo(
        nontrivial=box['diverged'] >= 1 or blocked_on_window,
        descriptor=[nf, spec['buffer_size'], n, fail, spec['fork_delays'], spec['start_delays'], out.sim.trace[:80]],
        classes=(f'forks{nf}', f"buf{spec['buffer_size']}", 'len_' + ('0' if n == 0 else '1' if n == 1 else 'within' if n <= spec['buffer_size'] else 'beyond'), 'source_fails' if fail else 'source_ok', 'window_full' if blocked_on_window else 'window_not_full', 'lines' if lines else 'syncpoints'),
        metrics={'steps': out.sim.steps, 'ahead_minus_bound': box['max_ahead'] - bound, 'diverged': box['diverged']},
        sample={'forks': nf, 'buffer_size': spec['buffer_size'], 'n': n, 'fail': fail, 'endings': ends, 'max_ahead': box['max_ahead'], 'switches': out.sim.switches},
    )


def run_lines(spec):
    return run_case(spec, lines=True)


def _warm():
    for _ in range(2):
        run_case({'nforks': 2, 'buffer_size': 2, 'n': 4, 'fail': None, 'src_delays': [0.0], 'fork_delays': [[0.0], [0.001]], 'start_delays': [0, 0], 'sched': {'kind': 'default'}})


def _setup_lines():
    # optional observer: if the module has been renamed/moved the family still runs, with lock/blocking preemption points only
    try:
        import importlib

        from vf import linemon

        linemon.install([importlib.import_module('mpservice.streamer._tee').__file__])
    except Exception:
        pass
    _warm()


RULE = (
    '2-3 forks consumed by their own threads with generated per-element delays and start offsets, buffer_size 2-5, source length 0 / 1 / <=window / >window (<=12), optional source failure at any position '
    '(incl. first element and after the last) with a generated exception class; schedules default/sparse/tape/PCT; F2 adds line-granular preemption inside _tee.py. Oracle: each fork == source prefix, same ending as the source '
    '(type+args), source pulled once per element, pulled - slowest fork <= buffer_size+2 at every step, no deadlock/horizon. Non-trivial: forks diverged by >=1 element or the window was full; distinct by (config, schedule prefix).'
)

FAMILIES = [
    Family('F1_syncpoints', 'sim', spec_strategy(), run_case, quick=3000, thorough=150_000, shards_quick=8, rule=RULE, setup=_warm),
    Family('F2_line_preemption', 'sim', spec_strategy(lines=True), run_lines, quick=1500, thorough=100_000, shards_quick=8, rule=RULE, setup=_setup_lines),
]
