"""Worker classes and request-value helpers for the server properties; importable in spawned children (no hypothesis import)."""
import time

LOG = []  # ('single'|'batch', tag, worker_index, vtime, arg_summary)  - thread workers only (children have their own copy)


class CustomError(Exception):
    pass


class CustomError2(Exception):
    def __init__(self, a, b='b'):
        super().__init__(a, b)
        self.a = a
        self.b = b




class InitError(Exception):
    pass


# TimeoutError: a type the server itself raises (and catches) for its own deadline; a worker's own TimeoutError is still the worker's failure
EXCS = {'ValueError': ValueError, 'KeyError': KeyError, 'CustomError': CustomError, 'CustomError2': CustomError2, 'ZeroDivisionError': ZeroDivisionError, 'TimeoutError': TimeoutError}
EXC_NAMES = list(EXCS)


def make_exc(name, *args):
    if name == 'CustomError2':
        return CustomError2(args[0], args[1:] if len(args) > 1 else 'b')
    return EXCS[name](*args)


def exc_norm(e):
    if type(e).__name__ == 'EnsembleError':
        return ['EnsembleError', '...']  # nested ensemble errors: membership details are schedule-dependent
    if isinstance(e, CustomError2):
        return ['CustomError2', [e.args[0], *(e.args[1] if isinstance(e.args[1], tuple) else [e.args[1]])]]
    return [type(e).__name__, tn(list(e.args))]


def tn(x):
    if isinstance(x, (list, tuple)):
        return [tn(v) for v in x]
    return x


def tb_text(e):
    import traceback

    from mpservice.multiprocessing.remote_exception import get_remote_traceback, is_remote_exception

    try:
        txt = ''.join(traceback.format_exception(type(e), e, e.__traceback__))
    except Exception as ee:  # pragma: no cover
        txt = f'<format failed: {ee!r}>'
    try:
        if is_remote_exception(e):
            txt += '\n[remote]\n' + get_remote_traceback(e)
    except Exception:
        pass
    return txt


def strip_tb(e, depth=0):
    if e is None or depth > 6:
        return
    try:
        e.__traceback__ = None
    except Exception:
        pass
    strip_tb(getattr(e, '__cause__', None), depth + 1)
    strip_tb(getattr(e, '__context__', None), depth + 1)


def is_value(x):
    return isinstance(x, tuple) and len(x) == 4 and x[0] == 'V'


def unpack(x):
    """returns (rid, plan, trace) of a value or of an ensemble output list"""
    from mpservice.multiprocessing.remote_exception import RemoteException

    if is_value(x):
        return x[1], x[2], x[3]
    if isinstance(x, list):
        rid = plan = None
        traces = []
        for m in x:
            if is_value(m) or isinstance(m, list):
                r, p, t = unpack(m)
                if rid is None:
                    rid, plan = r, p
                traces.append(('M', r, t))
            elif isinstance(m, RemoteException):
                traces.append(('ERR', exc_norm(m.exc)))
            elif isinstance(m, BaseException):
                traces.append(('ERR', exc_norm(m)))
            else:
                traces.append(('??', repr(m)))
        return rid, plan, ('ENS', tuple(traces))
    raise TypeError(f'worker received a malformed input: {x!r}')


from mpservice.mpserver import Worker  # noqa: E402


def fail_in_pre(name, tag, rid):
    raise make_exc(name, 'pre', tag, rid)


def fail_in_call(name, tag, rid):
    raise make_exc(name, tag, rid)


if True:

    class W(Worker):
        def __init__(self, *, tag, pre=False, init_fail=None, nst=0, **kw):
            super().__init__(**kw)
            if init_fail is not None and self.worker_index == init_fail:
                raise InitError(tag, self.worker_index)
            self.tag = tag
            if pre:
                self.preprocess = self._pre
            self.num_stream_threads = nst

        def _pre(self, x):
            rid, plan, trace = unpack(x)
            name = plan.get('pf', {}).get(self.tag)
            if name:
                fail_in_pre(name, self.tag, rid)
            return x

        def _one(self, x):
            rid, plan, trace = unpack(x)
            return ('V', rid, plan, (self.tag, rid, trace))

        def call(self, x):
            tag = self.tag
            if self.batch_size > 0:
                summary = []
                genuine = isinstance(x, list)
                if genuine:
                    for v in x:
                        try:
                            summary.append(unpack(v)[0])
                        except Exception:
                            summary.append(('BAD', type(v).__name__))
                LOG.append(('batch', tag, self.worker_index, time.monotonic(), summary if genuine else ('NOTLIST', type(x).__name__)))
                ups = [unpack(v) for v in x]
                d = max([p.get('d', {}).get(tag, 0.0) for _, p, _ in ups] or [0.0])
                if d > 0:
                    time.sleep(d)
                for rid, p, _ in ups:
                    name = p.get('f', {}).get(tag)
                    if name:
                        fail_in_call(name, tag, rid)
                return [self._one(v) for v in x]
            try:
                rid, plan, trace = unpack(x)
            except Exception:
                LOG.append(('single', tag, self.worker_index, time.monotonic(), ('BAD', type(x).__name__)))
                raise
            LOG.append(('single', tag, self.worker_index, time.monotonic(), rid))
            d = plan.get('d', {}).get(tag, 0.0)
            if d > 0:
                time.sleep(d)
            name = plan.get('f', {}).get(tag)
            if name:
                fail_in_call(name, tag, rid)
            return self._one(x)



