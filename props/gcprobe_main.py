"""One abandoned stream iterator, collected by the cyclic garbage collector, in a fresh interpreter (C05-F5).

usage: python gcprobe_main.py '<json spec>'   prints one JSON line {collected, left_threads, outs}
A fresh interpreter per case: in the variant that collects inside a critical section of threading.py a dead-lock keeps
threading's module lock forever, and no later case could start a thread in the same process.
"""
import gc
import json
import os
import sys
import threading
import time


def f(x):
    time.sleep(0.001)
    return x * 2


async def af(x):
    return x + 1


def main():
    spec = json.loads(sys.argv[1])
    from mpservice.streamer import Stream

    base = set(threading.enumerate())
    gc.disable()
    s = Stream(range(spec['n']))
    for op in spec['ops']:
        if op[0] == 'buffer':
            s.buffer(op[1])
        elif op[0] == 'parmap':
            s.parmap(f, executor='thread', concurrency=op[1])
        elif op[0] == 'parmap_async':
            s.parmap(af, concurrency=op[1])
        elif op[0] == 'map':
            s.map(f)
    it = iter(s)
    outs = 0
    x = None
    if spec['take'] > 0:
        for x in it:
            outs += 1
            if outs >= spec['take']:
                break
    time.sleep(spec.get('pause_ms', 100) / 1000.0)
    # the abandoned iterator sits in a reference cycle (as it does when a traceback or a closure refers to it): only the
    # cyclic collector frees it, at whatever allocation it happens to run
    holder = [it, s]
    holder.append(holder)
    del it, s, holder, x
    done = []

    def collect():
        if spec['where'] == 'threading_critical_section':
            lock = getattr(threading, '_shutdown_locks_lock', None)
            if lock is None:  # other interpreter versions: plain collection
                gc.collect()
            else:
                with lock:
                    gc.collect()
        else:
            gc.collect()
        done.append(1)

    t = threading.Thread(target=collect, daemon=True, name='gc-probe')
    t.start()
    t.join(10)
    left = []
    if done:
        t0 = time.monotonic()
        while time.monotonic() - t0 < 3:
            left = [x.name for x in threading.enumerate() if x not in base and x.is_alive() and x is not t]
            if not left:
                break
            time.sleep(0.05)
    print(json.dumps({'collected': bool(done), 'left_threads': left, 'outs': outs}), flush=True)
    os._exit(0)


if __name__ == '__main__':
    main()
