"""Functions that must be importable in spawned child processes."""
import time


def proc_fn(x, fails=(), delays_ms=(0,)):
    d = delays_ms[x % len(delays_ms)]
    if d:
        time.sleep(d / 1000.0)
    if x in fails:
        raise ValueError('proc_fn', x)
    return ('r', x)
