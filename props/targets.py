"""Functions that must be importable in spawned child processes."""
import time


def proc_fn(x, fails=(), delays_ms=(0,)):
    d = delays_ms[x % len(delays_ms)]
    if d:
        time.sleep(d / 1000.0)
    if x in fails:
        raise ValueError('proc_fn', x)
    return ('r', x)


def proc_stamp(x, delay_ms=30):
    """runs in a worker process of parmap(executor='process'): who ran the call and when (same machine clock for all processes)"""
    import os

    t0 = time.time()
    time.sleep(delay_ms / 1000.0)
    return (x, os.getpid(), t0, time.time())


# ---------------------------------------------------------------- C17 real cases


def _iq_supplier(q, r, k, count):
    for j in range(count):
        q.put((r, k, j))
    q.put_end()
    return True


def _iq_consumer(q):
    return [x for x in q]


def iq_real_case(spec):
    """returns {'error': (clause, detail)} or {}"""
    import queue
    import threading
    from collections import Counter

    import mpservice.multiprocessing as mmp
    from mpservice.queue import IterableQueue, StopRequested

    m, n, count, rounds = spec['m'], spec['n'], spec['count'], spec['rounds']
    if spec['mode'] == 'threads_stop':
        ev = threading.Event()
        q = IterableQueue(queue.Queue(maxsize=3), num_suppliers=m, to_stop=ev)
        for r in range(rounds):
            got = [[] for _ in range(n)]
            errs = []

            def con(k):
                try:
                    for x in q:
                        got[k].append(x)
                except BaseException as e:
                    errs.append(repr(e))

            ths = [threading.Thread(target=_iq_supplier, args=(q, r, k, count)) for k in range(m)] + [threading.Thread(target=con, args=(k,)) for k in range(n)]
            for t in ths:
                t.start()
            for t in ths:
                t.join()
            if errs:
                return {'error': ('party_raised', str(errs))}
            want = Counter((r, k, j) for k in range(m) for j in range(count))
            have = Counter(x for c in got for x in c)
            if want != have:
                return {'error': ('multiset', f'round {r}: missing {list((want - have).elements())[:5]} extra {list((have - want).elements())[:5]}')}
            if r + 1 < rounds:
                q.renew()
        # stop rule: a consumer blocked on the exhausted-but-renewed queue must be released by the stop event
        q.renew()
        res = {}

        def blocked():
            t0 = time.monotonic()
            try:
                next(q)
                res['r'] = 'value'
            except StopRequested:
                res['r'] = 'StopRequested'
            except BaseException as e:
                res['r'] = repr(e)
            res['dt'] = time.monotonic() - t0

        t = threading.Thread(target=blocked)
        t.start()
        time.sleep(0.3)
        ev.set()
        t.join(10)
        if t.is_alive() or res.get('r') != 'StopRequested':
            return {'error': ('stop_ignored', f'blocked consumer after stop request: {res}')}
        if res['dt'] > 0.3 + 1.0 * 5:
            return {'error': ('stop_late', f'released after {res["dt"]:.2f}s')}
        return {}
    # processes
    q = IterableQueue(mmp.Queue(maxsize=5), num_suppliers=m)
    for r in range(rounds):
        sups = [mmp.Process(target=_iq_supplier, args=(q, r, k, count)) for k in range(m)]
        cons = [mmp.Process(target=_iq_consumer, args=(q,)) for _ in range(n)]
        for p in sups + cons:
            p.start()
        for p in sups:
            p.join()
        got = [p.result() for p in cons]
        want = Counter((r, k, j) for k in range(m) for j in range(count))
        have = Counter(tuple(x) for c in got for x in c)
        if want != have:
            return {'error': ('multiset', f'round {r}: missing {list((want - have).elements())[:5]} extra {list((have - want).elements())[:5]}')}
        if r + 1 < rounds:
            q.renew()
    return {}


# ---------------------------------------------------------------- C12 targets


class MultiArg(Exception):
    def __init__(self, a, b, c):
        super().__init__(a, b, c)


def build_exc(name):
    from .workers import CustomError, CustomError2

    if name == 'ValueError':
        return ValueError('bad value', 7)
    if name == 'KeyError':
        return KeyError('k')
    if name == 'TimeoutError':
        return TimeoutError('upstream timed out', 3)
    if name == 'CustomError':
        return CustomError('custom', (1, 2))
    if name == 'CustomError2':
        return CustomError2('x', 'y')
    if name == 'KeyboardInterrupt':
        return KeyboardInterrupt('ctrl-c')
    if name == 'MultiArg':
        return MultiArg(1, 'two', 3.0)
    raise ValueError(name)


def end_like(ending, value, exc, code):
    """the generated way a target ends"""
    import sys

    if ending == 'return':
        return value
    if ending == 'raise':
        raise build_exc(exc)
    if ending == 'raise_from':
        try:
            {}['inner']
        except KeyError as ie:
            raise build_exc(exc) from ie
    if ending == 'raise_base':
        raise build_exc('KeyboardInterrupt')
    if ending == 'raise_multiarg':
        raise build_exc('MultiArg')
    if ending == 'exit_none':
        sys.exit()
    if ending == 'exit_0':
        sys.exit(0)
    if ending == 'exit_n':
        sys.exit(code)
    if ending == 'exit_str':
        sys.exit('bye')
    if ending == 'unpicklable':
        return lambda: value
    raise ValueError(ending)


def _park(conn):
    try:
        conn.send('parked')
    except Exception:
        pass
    time.sleep(60)


def proc_target(spec, conn):
    import logging
    import multiprocessing.util

    for i in range(spec.get('log_lines', 0)):
        logging.getLogger('c12.child').info('line %d', i)
    if spec.get('slow_ms'):
        conn.send('running')
        time.sleep(spec['slow_ms'] / 1000.0)
    if spec.get('linger_ms'):
        # the child stays alive for a while after its outcome has been sent (an exit finalizer, like a slow atexit hook)
        multiprocessing.util.Finalize(None, time.sleep, args=(spec['linger_ms'] / 1000.0,), exitpriority=100)
    if spec['kill'] != 'none':
        if spec['phase'] == 'during':
            conn.send('running')
            time.sleep(60)
        elif spec['phase'] == 'after_result':
            # park in an exit finalizer: the outcome has been sent to the parent by then
            multiprocessing.util.Finalize(None, _park, args=(conn,), exitpriority=100)
    return end_like(spec['ending'], spec['value'], spec['exc'], spec['code'])


def _canon(kind, v):
    if kind == 'raised' or isinstance(v, BaseException):
        return f'{type(v).__name__}{tuple(v.args)!r}'
    return repr(v)


def process_case(spec):
    import os

    delay = spec.get('reap_delay_ms', 0)
    if not delay:
        return _process_case(spec)
    # schedule perturbation: the thread that reaps the child is descheduled for a while right after the system call (before it
    # has stored the status), the way a loaded machine does it now and then
    real_waitpid = os.waitpid

    def slow_waitpid(pid, options):
        r = real_waitpid(pid, options)
        if r[0] != 0:
            time.sleep(delay / 1000.0)
        return r

    os.waitpid = slow_waitpid
    try:
        return _process_case(spec)
    finally:
        os.waitpid = real_waitpid


def _process_case(spec):
    import os
    import signal
    import threading

    import mpservice.multiprocessing as mmp
    from mpservice import TimeoutError as MpTimeoutError

    from .workers import tb_text

    parent_conn, child_conn = mmp.MP_SPAWN_CTX.Pipe()
    p = mmp.Process(target=proc_target, args=(spec, child_conn))
    p.start()
    res = {'records': []}
    kill = spec['kill']
    if spec.get('slow_ms') or (kill != 'none' and spec['phase'] == 'during' and spec.get('probe_running')):
        # the target is running (it said so and now sleeps): the accessors must say "not finished yet"
        if parent_conn.poll(20):
            parent_conn.recv()
            running = []
            running.append(('done', p.done()))
            running.append(('is_alive', p.is_alive()))
            for name, f in (('result', p.result), ('exception', p.exception)):
                t0 = time.monotonic()
                try:
                    f(0.15)
                    running.append((name, 'returned', time.monotonic() - t0))
                except MpTimeoutError:
                    running.append((name, 'mp_timeout', time.monotonic() - t0))
                except BaseException as e:
                    running.append((name, type(e).__name__, time.monotonic() - t0))
            t0 = time.monotonic()
            d, nd = mmp.wait([p], timeout=0.15)
            running.append(('wait', 'not_done' if p in nd else 'done', time.monotonic() - t0))
            t0 = time.monotonic()
            r = p.join(0.1)
            running.append(('join', repr(r), time.monotonic() - t0))
            res['running'] = running
            if kill != 'none' and spec['phase'] == 'during':
                res['handshake_done'] = True
    if spec.get('linger_ms') and kill == 'none':
        # wait()/as_completed() first; the moment they say "done", the other accessors must agree
        t0 = time.monotonic()
        if spec.get('linger_first') == 'as_completed':
            got = []
            try:
                for x in mmp.as_completed([p], timeout=20):
                    got.append(x)
            except Exception:
                pass
            said_done = got == [p]
        else:
            d, nd = mmp.wait([p], timeout=20)
            said_done = p in d
        probe = {'said_done': said_done, 'after_s': time.monotonic() - t0}
        if said_done:
            t1 = time.monotonic()
            probe['done_now'] = p.done()
            probe['exitcode_now'] = p.exitcode
            while not (p.done() and p.exitcode is not None) and time.monotonic() - t1 < 1.5:
                time.sleep(0.01)
            probe['agree_after_s'] = time.monotonic() - t1
            probe['agreed'] = bool(p.done() and p.exitcode is not None)
        res['linger_probe'] = probe
    if kill != 'none':
        if spec['phase'] in ('during', 'after_result') and not res.get('handshake_done'):
            if parent_conn.poll(20):
                parent_conn.recv()
            else:
                res['kill_missed'] = True
        if not res.get('kill_missed'):
            if kill == 'terminate':
                p.terminate()
            else:
                try:
                    os.kill(p.pid, getattr(signal, kill))
                except ProcessLookupError:
                    res['kill_missed'] = True

    def run_acc(name):
        box = {}

        def go():
            try:
                if name == 'join':
                    v = p.join()
                elif name == 'result':
                    v = p.result()
                elif name == 'exception':
                    v = p.exception()
                    box['r'] = ('returned', _canon('returned', v) if v is not None else 'None')
                    return
                elif name == 'done':
                    # give the OS a moment: the property is about the state after the end
                    t0 = time.monotonic()
                    while not p.done() and time.monotonic() - t0 < 10:
                        time.sleep(0.01)
                    v = p.done()
                elif name == 'exitcode':
                    t0 = time.monotonic()
                    while p.exitcode is None and time.monotonic() - t0 < 10:
                        time.sleep(0.01)
                    v = p.exitcode
                elif name == 'wait':
                    d, nd = mmp.wait([p], timeout=10)
                    v = 'done' if p in d else 'not_done'
                    box['r'] = ('returned', v)
                    return
                elif name == 'as_completed':
                    got = []
                    try:
                        for x in mmp.as_completed([p], timeout=10):
                            got.append(x)
                    except Exception:
                        pass
                    box['r'] = ('returned', 'done' if got == [p] else 'missing')
                    return
                box['r'] = ('returned', repr(v))
            except BaseException as e:
                box['r'] = ('raised', _canon('raised', e))
                box['tb'] = tb_text(e)

        t = threading.Thread(target=go, daemon=True)
        t.start()
        t.join(15)
        if t.is_alive():
            return ('hang', None), ''
        return box['r'], box.get('tb', '')

    for name in spec['accessors']:
        r, tb = run_acc(name)
        res['records'].append((name, r[0], r[1]))
        if tb:
            res['tb_' + name] = tb
        if r[0] == 'hang':
            break
    try:
        if p.is_alive():
            p.kill()
    except Exception:
        pass
    if spec.get('gc_probe') and 'hang' not in [r[1] for r in res['records']]:
        # The Process object becomes garbage now. The cyclic collector may run at any allocation, for instance inside the critical
        # sections of threading.py that every starting or ending thread passes through; whatever finalizers the object has
        # must be harmless there. (Emulated: a collection while a helper thread holds that lock.)
        import gc

        lock = getattr(threading, '_shutdown_locks_lock', None)
        if lock is not None:
            time.sleep(0.3)  # the helper threads of p finish
            p._cycle = p
            del p
            done = []

            def crit():
                with lock:
                    gc.collect()
                done.append(1)

            t = threading.Thread(target=crit, daemon=True, name='gc-probe')
            t.start()
            t.join(15)
            res['gc_probe'] = 'ok' if done else 'deadlock'
    return res


# ---------------------------------------------------------------- C20 targets


def log_message(i, size, dup=0):
    if dup and i % dup == dup - 1:
        i -= 1  # the same text as the previous record: two records, not one
    head = f'{i:06d}:'
    return head + 'm' * max(0, size - len(head))


LOG_NAMES = ('c20', 'c20.a', 'c20.b', 'c20.b.c', 'c20.quiet')


def apply_parent_levels(cfg):
    """cfg: {'parent_level': root level, 'named_levels': {logger name: level or 0 (= inherit)}}"""
    import logging

    logging.getLogger().setLevel(cfg['parent_level'])
    for name in LOG_NAMES:
        logging.getLogger(name).setLevel(cfg['named_levels'].get(name, 0))


def effective_level(name, cfg):
    """the documented rule of the logging module, written out: own level if set, else the nearest ancestor's, else the root's"""
    parts = name.split('.')
    while parts:
        lvl = cfg['named_levels'].get('.'.join(parts), 0)
        if lvl:
            return lvl
        parts.pop()
    return cfg['parent_level']


def emit_records(spec, lo=0, hi=None):
    import logging

    for i in range(lo, spec['n'] if hi is None else hi):
        name = spec['names'][i % len(spec['names'])]
        lvl = spec['levels'][i % len(spec['levels'])]
        logging.getLogger(name).log(lvl, log_message(i, spec['size'], spec.get('dup', 0)))


def log_target(spec, ev=None):
    import logging
    import sys

    if ev is None:
        emit_records(spec)
    else:
        # two phases: the parent changes its level settings between them (it has handled the marker by then)
        emit_records(spec, 0, spec['n'] // 2)
        logging.getLogger('c20.sync').critical('SYNC')
        ev.wait(15)
        emit_records(spec, spec['n'] // 2, None)
    if spec['tail'] == 'then_sleep':
        time.sleep(0.3)
    if spec['ending'] == 'raise':
        raise ValueError('log target failed')
    if spec['ending'] == 'exit_n':
        sys.exit(3)
    return 'ok'


def log_target_pool(spec):
    emit_records(spec)
    if spec['tail'] == 'then_sleep':
        time.sleep(0.3)
    if spec['ending'] == 'raise':
        raise ValueError('log target failed')
    return 'ok'


from mpservice.mpserver import Worker as _Worker  # noqa: E402


class LogWorker(_Worker):
    def __init__(self, *, spec, **kw):
        super().__init__(**kw)
        self.spec = spec

    def call(self, x):
        emit_records(self.spec)
        if self.spec['ending'] == 'raise':
            raise ValueError('log target failed')
        return 'ok'


def log_case(spec):
    """returns {} or {'error': (clause, detail)}"""
    import mpservice.multiprocessing as mmp

    mode = spec['mode']
    if mode == 'process':
        ev = None
        if spec.get('phase2'):
            import multiprocessing

            ev = multiprocessing.get_context('spawn').Event()
        p = mmp.Process(target=log_target, args=(spec, ev))
        p.start()
        if ev is not None:
            import logging

            hs = [h for h in logging.getLogger().handlers if hasattr(h, 'records') and hasattr(h, 'slow_ms')]
            t0 = time.monotonic()
            while hs and not any(r[0] == 'c20.sync' for r in hs[0].records[-3:]) and time.monotonic() - t0 < 10:
                time.sleep(0.005)
            apply_parent_levels(spec['phase2'])
            ev.set()
        try:
            r = p.result()
            out = ('value', r)
        except SystemExit as e:
            out = ('exit', e.code)
        except BaseException as e:
            out = ('raised', type(e).__name__)
        want = {'return': ('value', 'ok'), 'raise': ('raised', 'ValueError'), 'exit_n': ('exit', 3)}[spec['ending']]
        import logging

        # result()/join() is the only point at which a parent can know that its child is done: how many records had been handled then
        handled = [len(h.records) for h in logging.getLogger().handlers if hasattr(h, 'records') and hasattr(h, 'slow_ms')]
        if out != want:
            return {'error': ('wrong_ending', f'result() gave {out}, expected {want}')}
        if p.exitcode is None:
            return {'error': ('no_exitcode', 'exitcode is None after result() returned')}
        return {'handled_at_return': handled[0] if handled else None}
    if mode == 'servlet':
        from mpservice.mpserver import ProcessServlet, Server

        with Server(ProcessServlet(LogWorker, spec=spec)) as server:
            try:
                y = server.call(1, timeout=100)
                out = ('value', y)
            except BaseException as e:
                out = ('raised', type(e).__name__)
        want = ('raised', 'ValueError') if spec['ending'] == 'raise' else ('value', 'ok')
        if out != want:
            return {'error': ('wrong_ending', f'server.call gave {out}, expected {want}')}
        return {}
    from mpservice.concurrent.futures import ProcessPoolExecutor

    with ProcessPoolExecutor(1) as pool:
        f = pool.submit(log_target_pool, spec, loud_exception=False)
        try:
            out = ('value', f.result(timeout=100))
        except BaseException as e:
            out = ('raised', type(e).__name__)
    want = ('raised', 'ValueError') if spec['ending'] == 'raise' else ('value', 'ok')
    if out != want:
        return {'error': ('wrong_ending', f'pool future gave {out}, expected {want}')}
    return {}
