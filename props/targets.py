"""Functions that must be importable in spawned child processes."""
import time


def proc_fn(x, fails=(), delays_ms=(0,)):
    d = delays_ms[x % len(delays_ms)]
    if d:
        time.sleep(d / 1000.0)
    if x in fails:
        raise ValueError('proc_fn', x)
    return ('r', x)


# ---------------------------------------------------------------- C17 real cases


def _iq_supplier(q, r, k, count):
    for j in range(count):
        q.put((r, k, j))
    q.put_end()
    return True


def _iq_consumer(q):
    return [x for x in q]


def iq_real_case(spec):
    """returns {'error': (clause, detail)} or {}"""
    import queue
    import threading
    from collections import Counter

    import mpservice.multiprocessing as mmp
    from mpservice.queue import IterableQueue, StopRequested

    m, n, count, rounds = spec['m'], spec['n'], spec['count'], spec['rounds']
    if spec['mode'] == 'threads_stop':
        ev = threading.Event()
        q = IterableQueue(queue.Queue(maxsize=3), num_suppliers=m, to_stop=ev)
        for r in range(rounds):
            got = [[] for _ in range(n)]
            errs = []

            def con(k):
                try:
                    for x in q:
                        got[k].append(x)
                except BaseException as e:
                    errs.append(repr(e))

            ths = [threading.Thread(target=_iq_supplier, args=(q, r, k, count)) for k in range(m)] + [threading.Thread(target=con, args=(k,)) for k in range(n)]
            for t in ths:
                t.start()
            for t in ths:
                t.join()
            if errs:
                return {'error': ('party_raised', str(errs))}
            want = Counter((r, k, j) for k in range(m) for j in range(count))
            have = Counter(x for c in got for x in c)
            if want != have:
                return {'error': ('multiset', f'round {r}: missing {list((want - have).elements())[:5]} extra {list((have - want).elements())[:5]}')}
            if r + 1 < rounds:
                q.renew()
        # stop rule: a consumer blocked on the exhausted-but-renewed queue must be released by the stop event
        q.renew()
        res = {}

        def blocked():
            t0 = time.monotonic()
            try:
                next(q)
                res['r'] = 'value'
            except StopRequested:
                res['r'] = 'StopRequested'
            except BaseException as e:
                res['r'] = repr(e)
            res['dt'] = time.monotonic() - t0

        t = threading.Thread(target=blocked)
        t.start()
        time.sleep(0.3)
        ev.set()
        t.join(10)
        if t.is_alive() or res.get('r') != 'StopRequested':
            return {'error': ('stop_ignored', f'blocked consumer after stop request: {res}')}
        if res['dt'] > 0.3 + 1.0 * 5:
            return {'error': ('stop_late', f'released after {res["dt"]:.2f}s')}
        return {}
    # processes
    q = IterableQueue(mmp.Queue(maxsize=5), num_suppliers=m)
    for r in range(rounds):
        sups = [mmp.Process(target=_iq_supplier, args=(q, r, k, count)) for k in range(m)]
        cons = [mmp.Process(target=_iq_consumer, args=(q,)) for _ in range(n)]
        for p in sups + cons:
            p.start()
        for p in sups:
            p.join()
        got = [p.result() for p in cons]
        want = Counter((r, k, j) for k in range(m) for j in range(count))
        have = Counter(tuple(x) for c in got for x in c)
        if want != have:
            return {'error': ('multiset', f'round {r}: missing {list((want - have).elements())[:5]} extra {list((have - want).elements())[:5]}')}
        if r + 1 < rounds:
            q.renew()
    return {}
