"""Rig for the manager properties (C13, C14): one ServerProcess plus one helper client process per shard, driven by generated
operation sequences (histories). Importable in spawned children (no hypothesis import)."""
import gc
import os
import pickle
import time


class Counter:
    """registered class hosted in the server: plain methods, raising methods, methods returning managed values"""

    def __init__(self, start=0):
        self.n = start
        self.log = []

    def add(self, k):
        if not isinstance(k, int):
            raise TypeError('need an int', k)
        self.n += k
        self.log.append(k)
        return self.n

    def get(self):
        return self.n

    def fail(self, kind, arg):
        if kind == 'value':
            raise ValueError('bad', arg)
        if kind == 'key':
            raise KeyError(arg)
        if kind == 'index':
            return [][arg if isinstance(arg, int) else 0]
        if kind == 'custom':
            raise CounterError('counter failed', arg)
        if kind == 'attr':
            raise AttributeError('no such thing', arg)
        # types that the manager machinery itself raises or catches around its connections
        if kind == 'eof':
            raise EOFError('user eof', arg)
        if kind == 'timeout':
            raise TimeoutError('user timeout', arg)
        if kind == 'stopiter':
            raise StopIteration(arg)
        if kind == 'oserror':
            raise ConnectionResetError('user reset', arg)
        if kind == 'unpicklable':
            import threading

            raise ValueError('cannot travel', threading.Lock())
        raise ZeroDivisionError(arg)

    def echo(self, x):
        return x

    def make_managed_list(self, items):
        from mpservice.multiprocessing.server_process import managed_list

        return managed_list(list(items))

    def shared_list(self):
        # returns a managed proxy of ONE retained server-side object, again and again
        from mpservice.multiprocessing.server_process import managed_list

        if not hasattr(self, '_shared'):
            self._shared = ['shared']
        return managed_list(self._shared)

    def make_mixed(self, items):
        from mpservice.multiprocessing.server_process import managed_dict, managed_list

        return {'plain': list(items), 'hosted': managed_list(list(items)), 'deep': ('t', {'d': managed_dict({'k': len(items)})})}


class CounterError(Exception):
    pass


_registered = [False]


def register():
    from mpservice.multiprocessing.server_process import ServerProcess

    if not _registered[0]:
        try:
            ServerProcess.register('VCounter', Counter)
        except ValueError:
            pass
        _registered[0] = True


register()


def helper_main(conn):
    """command loop of the helper client process"""
    slots = {}
    while True:
        try:
            msg = conn.recv()
        except EOFError:
            return
        cmd = msg[0]
        try:
            if cmd == 'hold':
                slots[msg[1]] = msg[2]
                del msg
                conn.send(('ok', None))
            elif cmd == 'hold_pickle':
                slots[msg[1]] = pickle.loads(msg[2])
                conn.send(('ok', None))
            elif cmd == 'drop':
                slots.pop(msg[1], None)
                gc.collect()
                conn.send(('ok', None))
            elif cmd == 'send_back':
                conn.send(('ok', slots[msg[1]]))
                msg = None
            elif cmd == 'pickle':
                conn.send(('ok', pickle.dumps(slots[msg[1]])))
            elif cmd == 'call':
                p = slots[msg[1]]
                r = None
                try:
                    r = getattr(p, msg[2])(*msg[3])
                    conn.send(('ok', ('value', r)))
                except BaseException as e:
                    from mpservice.multiprocessing.remote_exception import get_remote_traceback, is_remote_exception

                    conn.send(('ok', ('raised', type(e).__name__, e.args, is_remote_exception(e) and get_remote_traceback(e))))
                finally:
                    # no reference to the proxy (or to a returned proxy) may survive in this frame
                    del p, r
                    msg = None
            elif cmd == 'ping':
                gc.collect()
                conn.send(('ok', len(slots)))
            elif cmd == 'exit':
                if msg[1] == 'drop_first':
                    slots.clear()
                    gc.collect()
                conn.send(('ok', None))
                return
            else:
                conn.send(('err', f'unknown {cmd}'))
        except BaseException as e:
            try:
                conn.send(('err', f'{type(e).__name__}: {e}'))
            except Exception:
                return


def arg_holder(proxy, conn):
    """target of a process that receives a proxy as an argument, uses it once, drops it and exits"""
    try:
        n = len(proxy) if hasattr(proxy, '__len__') else 0
        del proxy
        gc.collect()
        conn.send(('ok', n))
    except BaseException as e:
        conn.send(('err', f'{type(e).__name__}: {e}'))


class Rig:
    def __init__(self):
        import mpservice.multiprocessing as mmp
        from mpservice.multiprocessing.server_process import ServerProcess

        self.mmp = mmp
        self.manager = ServerProcess()
        self.manager.start()
        self.helper = None
        self.conn = None
        self.start_helper()

    def start_helper(self):
        a, b = self.mmp.MP_SPAWN_CTX.Pipe()
        self.helper = self.mmp.MP_SPAWN_CTX.Process(target=helper_main, args=(b,), daemon=True)
        self.helper.start()
        b.close()
        self.conn = a

    def ask(self, *msg, timeout=30):
        self.conn.send(msg)
        if not self.conn.poll(timeout):
            raise TimeoutError(f'helper did not answer {msg[0]}')
        st, payload = self.conn.recv()
        if st != 'ok':
            raise RuntimeError(f'helper error on {msg[0]}: {payload}')
        return payload

    def debug_info(self):
        info = self.manager._debug_info()
        return {d['id']: d['refcount:'] for d in info}

    def close(self):
        try:
            self.conn.send(('exit', 'drop_first'))
        except Exception:
            pass
        try:
            self.helper.join(3)
            if self.helper.is_alive():
                self.helper.kill()
        except Exception:
            pass
        try:
            self.manager.shutdown()
        except Exception:
            pass
