"""C17 - IterableQueue delivers every item once and every consumer finishes; ResponsiveQueue honours stop requests."""
import queue
import threading
import time
from collections import Counter

from hypothesis import strategies as st

from vf.core import CaseInfo, Family, Violation, hang_check, run_sim, sched_strategy
from vf.detsched import SimAbort

ASSUMPTIONS = [
    'thread parties under the deterministic scheduler with to_stop=None (the token queues are then queue.Queue objects; with a stop event the bookkeeping lives in '
    'multiprocessing queues, which cannot be simulated: that combination and process parties are sampled with real threads/processes)',
    'renew() is called by the harness once all consumers of a round have ended, as documented',
    'line-granular preemption inside mpservice/queue.py in family F3',
    'ResponsiveQueue: after the stop event is set, a blocked get/put must raise StopRequested within wait_interval_seconds of virtual time (exact, stall budget 0)',
]


@st.composite
def spec_strategy(draw, lines=False):
    m = draw(st.sampled_from([1, 2, 2, 3]))
    n = draw(st.sampled_from([1, 2, 2, 3]))
    rounds = draw(st.sampled_from([1, 2, 2, 3]))
    items = [[draw(st.integers(0, 4)) for _ in range(m)] for _ in range(rounds)]
    return {
        'm': m,
        'n': n,
        'rounds': rounds,
        'counts': items,
        'qkind': draw(st.sampled_from(['Queue', 'Queue', 'SimpleQueue'])),
        'bound': draw(st.sampled_from([1, 2, 3, 4, 0])),
        'sup_delays': [draw(st.sampled_from([0, 0, 0.001, 0.01])) for _ in range(m)],
        'con_delays': [draw(st.sampled_from([0, 0, 0.001, 0.01])) for _ in range(n)],
        # between two rounds (documented in put_end): a supplier may already put its items of the next round and call
        # put_end(wait_for_renew=True), and further consumers may iterate the exhausted queue (they receive nothing), before renew()
        'early': [draw(st.one_of(st.none(), st.none(), st.fixed_dictionaries({'k': st.integers(0, m - 1), 'late': st.integers(0, 2)}))) for _ in range(rounds)],
        'sched': draw(sched_strategy(max_len=300 if lines else 200, est_steps=4000 if lines else 1200, depth=4)),
    }


def run_case(spec, lines=False):
    from mpservice.queue import IterableQueue

    m, n, rounds = spec['m'], spec['n'], spec['rounds']
    got = [[[] for _ in range(n)] for _ in range(rounds)]
    late_got = []
    errs = []

    def scenario():
        base = queue.Queue(spec['bound']) if spec['qkind'] == 'Queue' else queue.SimpleQueue()
        q = IterableQueue(base, num_suppliers=m)
        started_early = None
        for r in range(rounds):

            def sup(k, r=r, wait=False):
                try:
                    for j in range(spec['counts'][r][k]):
                        if spec['sup_delays'][k]:
                            time.sleep(spec['sup_delays'][k])
                        q.put((r, k, j))
                    q.put_end(wait_for_renew=wait)
                except SimAbort:
                    raise
                except BaseException as e:
                    errs.append(('supplier', r, k, repr(e)))

            def con(k, r=r):
                try:
                    for x in q:
                        got[r][k].append(x)
                        if spec['con_delays'][k]:
                            time.sleep(spec['con_delays'][k])
                except SimAbort:
                    raise
                except BaseException as e:
                    errs.append(('consumer', r, k, repr(e)))

            ths = [threading.Thread(target=sup, args=(k,), name=f'harness-supplier-{k}') for k in range(m) if started_early is None or k != started_early[0]]
            ths += [threading.Thread(target=con, args=(k,), name=f'harness-consumer-{k}') for k in range(n)]
            for t in ths:
                t.start()
            if started_early is not None:
                ths.append(started_early[1])
                started_early = None
            for t in ths:
                t.join()
            if r + 1 < rounds:
                early = (spec.get('early') or [None] * rounds)[r]
                if early:
                    k = early['k'] % m

                    def sup_next(k=k, r=r):
                        sup(k, r + 1, True)

                    et = threading.Thread(target=sup_next, name=f'harness-supplier-{k}-early')
                    et.start()
                    started_early = (k, et)
                    lates = []
                    for i in range(early['late']):

                        def late(i=i, r=r):
                            try:
                                for x in q:
                                    late_got.append((r, i, x))
                            except SimAbort:
                                raise
                            except BaseException as e:
                                errs.append(('late consumer', r, i, repr(e)))

                        lates.append(threading.Thread(target=late, name=f'harness-late-consumer-{i}'))
                    for t in lates:
                        t.start()
                    for t in lates:
                        t.join()
                try:
                    q.renew()
                except SimAbort:
                    raise
                except BaseException as e:
                    errs.append(('renew', r, 0, repr(e)))
                    return False
        return True

    out = run_sim(scenario, spec['sched'], horizon=300.0, max_steps=600_000, lines=lines)
    hang_check(out)
    if errs:
        raise Violation('party_raised', f'{errs[:3]}', signature=['party_raised', errs[0][0]])
    if late_got:
        raise Violation('exhausted_queue_delivered', f'a consumer iterating the exhausted queue before renew() received {late_got[:4]} (items put for the next round are not accessible until renew)', signature=['exhausted_queue_delivered'])
    for r in range(rounds):
        want = Counter((r, k, j) for k in range(m) for j in range(spec['counts'][r][k]))
        have = Counter(x for c in got[r] for x in c)
        foreign = [x for x in have if not (isinstance(x, tuple) and x[0] == r)]
        if foreign:
            raise Violation('leak_between_rounds', f'round {r} consumers received {foreign}', signature=['leak_between_rounds'])
        if have != want:
            missing = list((want - have).elements())
            extra = list((have - want).elements())
            raise Violation('multiset', f'round {r}: missing {missing} extra/duplicated {extra}', signature=['multiset', 'missing' if missing else 'extra'])
    total = sum(sum(c) for c in spec['counts'])
    return CaseInfo(
        nontrivial=(m * n >= 2 and rounds >= 2),
        descriptor=[m, n, rounds, spec['counts'], spec['qkind'], spec['bound'], out.sim.trace[:80]],
        classes=(f'm{m}', f'n{n}', f'rounds{rounds}', spec['qkind'], f"bound{spec['bound']}", 'lines' if lines else 'syncpoints', 'early_puts' if any((spec.get('early') or [])[: rounds - 1]) else 'rounds_apart'),
        metrics={'steps': out.sim.steps, 'items': total},
        sample={'m': m, 'n': n, 'rounds': rounds, 'counts': spec['counts'], 'qkind': spec['qkind'], 'bound': spec['bound'], 'received_per_consumer': [[len(c) for c in got[r]] for r in range(rounds)]},
    )


def run_lines(spec):
    return run_case(spec, lines=True)


# ------------------------------------------------------------------------- ResponsiveQueue stop rule


@st.composite
def rq_spec(draw):
    return {
        'bound': draw(st.sampled_from([1, 2])),
        'interval': draw(st.sampled_from([0.05, 0.25, 1.0])),
        'getters': draw(st.integers(0, 2)),
        'putters': draw(st.integers(0, 2)),
        'prefill': draw(st.booleans()),
        'timeout': draw(st.sampled_from([None, None, 5.0, 0.3])),
        'stop_at': draw(st.sampled_from([0.0, 0.01, 0.13, 0.6, 1.7])),
        'sched': draw(sched_strategy(max_len=80, est_steps=300, depth=3)),
    }


def run_rq(spec):
    from mpservice.queue import ResponsiveQueue, StopRequested

    recs = []

    def scenario():
        ev = threading.Event()
        base = queue.Queue(spec['bound'])
        q = ResponsiveQueue(base, ev, wait_interval_seconds=spec['interval'])
        if spec['prefill']:
            for _ in range(spec['bound']):
                q.put('pre')
        t_start = time.monotonic()

        def getter(k):
            t0 = time.monotonic()
            try:
                x = q.get(timeout=spec['timeout'])
                recs.append(('get', k, 'value', t0 - t_start, time.monotonic() - t_start, x))
            except SimAbort:
                raise
            except BaseException as e:
                recs.append(('get', k, type(e).__name__, t0 - t_start, time.monotonic() - t_start, None))

        def putter(k):
            t0 = time.monotonic()
            try:
                q.put(('item', k), timeout=spec['timeout'])
                recs.append(('put', k, 'done', t0 - t_start, time.monotonic() - t_start, None))
            except SimAbort:
                raise
            except BaseException as e:
                recs.append(('put', k, type(e).__name__, t0 - t_start, time.monotonic() - t_start, None))

        ths = [threading.Thread(target=getter, args=(k,)) for k in range(spec['getters'])] + [threading.Thread(target=putter, args=(k,)) for k in range(spec['putters'])]
        for t in ths:
            t.start()
        time.sleep(spec['stop_at'])
        ev.set()
        box['t_stop'] = time.monotonic() - t_start
        for t in ths:
            t.join()
        return True

    box = {}
    out = run_sim(scenario, spec['sched'], horizon=200.0, max_steps=200_000, creep=True)
    hang_check(out)
    t_stop = box['t_stop']
    stopped = 0
    for op, k, res, t0, t1, x in recs:
        if res in ('value', 'done'):
            continue
        if res == 'StopRequested':
            stopped += 1
            if t1 < t_stop - 1e-9:
                raise Violation('stop_before_request', f'{op} raised StopRequested at {t1:.3f} before the stop request at {t_stop:.3f}', signature=['stop_before_request'])
            if t1 > t_stop + spec['interval'] + 1e-6:
                raise Violation('stop_late', f'{op} blocked until {t1:.3f}; stop requested at {t_stop:.3f}, wait interval {spec["interval"]}', signature=['stop_late'])
        elif res in ('Empty', 'Full'):
            if spec['timeout'] is None:
                raise Violation('spurious_timeout', f'{op} without timeout raised {res}', signature=['spurious_timeout'])
            if t1 - t0 < spec['timeout'] - 1e-6:
                raise Violation('early_timeout', f'{op} raised {res} after {t1 - t0:.3f}s < timeout {spec["timeout"]}', signature=['early_timeout'])
            if t1 > t_stop + spec['interval'] + 1e-6 and t1 - t0 > spec['timeout'] + 1e-6:
                raise Violation('stop_late', f'{op} ignored the stop request: ended at {t1:.3f} with {res}', signature=['stop_late'])
        else:
            raise Violation('unexpected_exception', f'{op} raised {res}', signature=['unexpected_exception', res])
        # a party still blocked after the stop request must have been released within the interval
    for op, k, res, t0, t1, x in recs:
        if res in ('value', 'done') and t1 > t_stop + spec['interval'] + 1e-6 and (spec['timeout'] is None or t1 - t0 <= spec['timeout']):
            # finished normally later than the interval after the stop although it was blocked at the stop: it should have raised StopRequested
            # (only a violation if it really was blocked across the whole interval)
            if t0 <= t_stop:
                raise Violation('stop_ignored', f'{op} was blocked from {t0:.3f} across the stop request at {t_stop:.3f} and finished normally at {t1:.3f}', signature=['stop_ignored'])
    return CaseInfo(
        nontrivial=stopped >= 1,
        descriptor=[spec['bound'], spec['interval'], spec['getters'], spec['putters'], spec['prefill'], spec['timeout'], spec['stop_at'], out.sim.trace[:40]],
        classes=(f"interval{spec['interval']}", 'stopped_blocked_party' if stopped else 'nobody_blocked', f"timeout_{spec['timeout']}"),
        metrics={'steps': out.sim.steps},
        sample={'spec': {k: v for k, v in spec.items() if k != 'sched'}, 'records': [(op, res, round(t0, 3), round(t1, 3)) for op, k, res, t0, t1, x in recs]},
    )


# ------------------------------------------------------------------------- real threads/processes with a stop event (sampled)


@st.composite
def real_spec(draw):
    return {'mode': draw(st.sampled_from(['threads_stop', 'processes'])), 'm': draw(st.integers(1, 2)), 'n': draw(st.integers(1, 2)), 'count': draw(st.integers(0, 20)), 'rounds': draw(st.sampled_from([1, 2]))}


def run_real(spec):
    from vf.realproc import reap_children, run_with_watchdog

    from . import targets

    def case():
        return targets.iq_real_case(spec)

    try:
        res = run_with_watchdog(case, budget_s=20, what=f"IterableQueue real {spec['mode']}", signature=['hang', spec['mode']])
    finally:
        reap_children()
    if res.get('error'):
        raise Violation('real_' + res['error'][0], res['error'][1], signature=['real', res['error'][0]])
    return CaseInfo(nontrivial=spec['m'] * spec['n'] >= 2 or spec['rounds'] >= 2, descriptor=spec, classes=('real', spec['mode']), sample=spec)


def _warm():
    for _ in range(2):
        run_case({'m': 2, 'n': 2, 'rounds': 2, 'counts': [[1, 2], [2, 1]], 'qkind': 'Queue', 'bound': 2, 'sup_delays': [0, 0], 'con_delays': [0, 0], 'sched': {'kind': 'default'}})
        run_rq({'bound': 1, 'interval': 0.05, 'getters': 1, 'putters': 1, 'prefill': True, 'timeout': None, 'stop_at': 0.01, 'sched': {'kind': 'default'}})


def _setup_lines():
    # optional observer: if the module has been renamed/moved the family still runs, with lock/blocking preemption points only
    try:
        import importlib

        from vf import linemon

        linemon.install([importlib.import_module('mpservice.queue').__file__])
    except Exception:
        pass
    _warm()


RULE = (
    'F1/F3: 1-3 supplier threads x 1-3 consumer threads x queue.Queue(bound 0-4)/SimpleQueue x 1-3 rounds separated by renew(), items unique per (round, supplier, index), generated delays and schedules '
    '(F3 adds line-granular preemption inside queue.py). Oracle: per round multiset received == multiset put, nothing from another round, no party raises, every loop ends (no deadlock/horizon). '
    'F2: ResponsiveQueue over a bounded queue with blocked getters/putters and a stop event set at a generated virtual moment: StopRequested within wait_interval_seconds. '
    'F4 (real): IterableQueue(to_stop=Event) with threads, and across processes. Non-trivial: m*n>=2 and >=2 rounds (F1/F3), a blocked party was stopped (F2); distinct by (config, schedule prefix).'
)

FAMILIES = [
    Family('F1_multiparty_rounds', 'sim', spec_strategy(), run_case, quick=3000, thorough=150_000, shards_quick=8, rule=RULE, setup=_warm),
    Family('F2_responsive_stop', 'sim', rq_spec(), run_rq, quick=1500, thorough=60_000, shards_quick=4, rule=RULE, setup=_warm),
    Family('F3_line_preemption', 'sim', spec_strategy(lines=True), run_lines, quick=1000, thorough=100_000, shards_quick=8, rule=RULE, setup=_setup_lines),
    Family('F4_real', 'real', real_spec(), run_real, quick=12, thorough=300, shards_quick=4, shards_thorough=8, rule=RULE, shrink=False),
]
