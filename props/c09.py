"""C09 - workers see well-formed batches; no request waits for a full batch."""
import threading
import time

from hypothesis import strategies as st

from vf.core import CaseInfo, Family, Violation, hang_check, sched_strategy

from . import serverlib as sv

ASSUMPTIONS = [
    'Worker.call is instrumented (harness subclass) and logs (virtual time, worker, argument summary)',
    'optional observer: a recording subclass of SingleLane injected as mpservice.mpserver._worker.SingleLane logs when each element is taken by the batch consumer; '
    'if that symbol disappears the timing clause falls back to the lone-request latency bound only',
    'stall budget 0 (exact virtual time); tolerance 1e-6 s',
]

TOL = 1e-6
GETS = []  # (lane id, vtime, timeout arg or 'BLOCK', item | 'EMPTY')


def install_lane_observer():
    try:
        import mpservice.mpserver._worker as wm
        from mpservice._queues import SingleLane
        from queue import Empty
    except Exception:
        return False
    if not hasattr(wm, 'SingleLane'):
        return False
    if getattr(wm.SingleLane, '_verif_rec', False):
        return True

    class RecLane(SingleLane):
        _verif_rec = True

        def get(self, block=True, timeout=None):
            try:
                z = super().get(block, timeout)
            except Empty:
                GETS.append((id(self), time.monotonic(), timeout, 'EMPTY'))
                raise
            GETS.append((id(self), time.monotonic(), 'BLOCK' if timeout is None else timeout, z))
            return z

    wm.SingleLane = RecLane
    return True


@st.composite
def spec_strategy(draw):
    bs = draw(st.sampled_from([0, 1, 2, 2, 3, 3, 4, 5]))
    node = {'t': 'w', 'tag': 'B', 'n': draw(st.sampled_from([1, 1, 2, 3])), 'bs': bs, 'pre': draw(st.booleans())}
    if bs > 1:
        node['bw'] = draw(st.sampled_from([0, 0.01, 0.05]))
    if draw(st.integers(0, 3)) == 0:
        node['nst'] = 2
    upstream = draw(st.booleans())
    tree = {'t': 'seq', 'ch': [{'t': 'w', 'tag': 'A', 'n': draw(st.sampled_from([1, 2])), 'pre': False}, node]} if upstream else node
    nreq = draw(st.integers(1, 12))
    reqs = {}
    callers = []
    for rid in range(nreq):
        plan = {'d': {}, 'f': {}, 'pf': {}, 'r': 0}
        d = draw(st.sampled_from([0.0, 0.0, 0.001, 0.004, 0.02]))
        if d:
            plan['d']['B'] = d
        if upstream and draw(st.integers(0, 4)) == 0:
            plan['f']['A'] = draw(st.sampled_from(sv.EXC_NAMES))
        if upstream and draw(st.integers(0, 2)) == 0:
            plan['d']['A'] = draw(st.sampled_from([0.001, 0.003]))
        if node['pre'] and draw(st.integers(0, 3)) == 0:
            plan['pf']['B'] = draw(st.sampled_from(sv.EXC_NAMES))
        if draw(st.integers(0, 9)) == 0:
            plan['f']['B'] = draw(st.sampled_from(sv.EXC_NAMES))
        reqs[str(rid)] = plan
        arrival = draw(st.sampled_from([0, 0, 0, 0.001, 0.005, 0.011, 0.03, 0.2, 1.0, 2.0]))
        callers.append([{'rid': rid, 'timeout': 'long', 'bp': False, 'think': arrival}])
    spec = {'tree': tree, 'capacity': 64, 'reqs': reqs, 'callers': callers, 'streams': [], 'sched': draw(sched_strategy(max_len=250, est_steps=3000, depth=4))}
    if bs > 1 and draw(st.integers(0, 3)) == 0:
        # the server is left while a timed-out request still sits in a partial batch: the end marker meets a non-empty batch
        spec['quiesce'] = False
        last = max(c[0]['think'] for c in callers)
        callers[-1][0]['think'] = last
        callers[-1][0]['timeout'] = draw(st.sampled_from([0.0005, 0.002]))
    return spec


def run_case(spec):
    have_lane = install_lane_observer()
    del GETS[:]
    obs = sv.run_server(spec)
    out = obs.out
    hang_check(out)
    if out.exc is not None:
        raise Violation('scenario_exception', f'{type(out.exc).__name__}: {out.exc}', signature=['exc', type(out.exc).__name__])
    if obs.enter_exc is not None:
        raise Violation('enter_failed', f'{type(obs.enter_exc).__name__}: {obs.enter_exc}', signature=['enter'])
    if obs.exit_exc is not None:
        # a worker that choked on a malformed batch (e.g. an end marker inside it) dies and makes __exit__ raise
        raise Violation('worker_crashed', f'__exit__ raised {type(obs.exit_exc).__name__}: {obs.exit_exc}', signature=['worker_crashed', type(obs.exit_exc).__name__])
    tree = spec['tree']
    reqs = {int(k): v for k, v in spec['reqs'].items()}
    bnode = [n for n in sv.tree_tags(tree) if n['tag'] == 'B'][0]
    bs = bnode['bs']
    w = bnode.get('bw', 0) or 0
    if bs > 1 and 'bw' not in bnode:
        w = 0.01
    # which requests must reach B.call: not failed upstream, not rejected by B.preprocess
    should = sorted(r for r, p in reqs.items() if not p['f'].get('A') and not (bnode['pre'] and p['pf'].get('B')))
    seen = []
    partial_by_deadline = 0
    shortcircuit = any(p['f'].get('A') or (bnode['pre'] and p['pf'].get('B')) for p in reqs.values())
    blog = [r for r in obs.log if r[1] == 'B']
    for kind, tag, widx, t, summ in blog:
        if bs > 0:
            if kind != 'batch' or not isinstance(summ, list):
                raise Violation('not_a_list', f'batch_size={bs} but call received {summ}', signature=['not_a_list'])
            if not (1 <= len(summ) <= bs):
                raise Violation('batch_len', f'batch_size={bs} but call received a batch of {len(summ)}: {summ}', signature=['batch_len', 'empty' if not summ else 'too_long'])
            for x in summ:
                if not isinstance(x, int):
                    raise Violation('non_genuine_element', f'batch contains a non-input element {x}: {summ}', signature=['non_genuine_element'])
            seen.extend(summ)
        else:
            if kind != 'single' or not isinstance(summ, int):
                raise Violation('non_genuine_single', f'batch_size=0 but call received {kind} {summ}', signature=['non_genuine_single'])
            seen.append(summ)
    for r in seen:
        if r not in should:
            raise Violation('rejected_element_in_call', f'request {r} failed upstream / was rejected by preprocess but reached call', signature=['rejected_element_in_call'])
    abandoned_at_exit = {r['rid'] for r in obs.calls if r['kind'] == 'timeout'} if not spec.get('quiesce', True) else set()
    # (a server that is left while an abandoned request is still in flight may drop it: the stop sentinel can overtake it)
    if sorted(seen) != should and not (len(set(seen)) == len(seen) and set(should) - set(seen) <= abandoned_at_exit):
        missing = sorted(set(should) - set(seen))
        dup = sorted({r for r in seen if seen.count(r) > 1})
        raise Violation('not_exactly_one_batch', f'accepted requests {should}; seen in call {sorted(seen)}; missing {missing} duplicated {dup}', signature=['not_exactly_one_batch', 'missing' if missing else 'dup'])
    # every request answered according to the reference (incl. batch poisoning)
    poison = sv.batch_poison_map(tree, reqs, obs.log)
    from . import c02

    for rec in obs.calls:
        rec['forced'] = poison.get(rec['rid'])
        bad = c02.judge_call(rec, tree, reqs, spec['capacity'], None)
        if bad:
            raise Violation(bad[0], bad[1], signature=[bad[0]])
    # timing: time from the first element of a batch being taken to the call
    max_wait_seen = 0.0
    if bs > 1 and have_lane:
        lanes = {}
        for lid, t, to, item in GETS:
            lanes.setdefault(lid, []).append((t, to, item))
        first_taken = {}  # rid of first element -> time
        for lid, evs in lanes.items():
            for t, to, item in evs:
                if to == 'BLOCK' and isinstance(item, tuple) and len(item) == 2:
                    try:
                        first_taken[sv.unpack(item[1])[0]] = t
                    except Exception:
                        pass
        for kind, tag, widx, t, summ in blog:
            if summ and summ[0] in first_taken:
                waited = t - first_taken[summ[0]]
                max_wait_seen = max(max_wait_seen, waited)
                if waited > w + TOL and (bnode.get('nst', 0) == 0):
                    raise Violation('batch_waited_too_long', f'batch {summ} was called {waited:.6f}s after its first element was taken; batch_wait_time={w}', signature=['batch_waited_too_long'])
                if len(summ) < bs and waited > TOL:
                    partial_by_deadline += 1
    # lone request: answered no later than arrival + wait + service
    arrivals = sorted((r['t0'], r['t1'], r['rid']) for r in obs.calls)
    for i, (t0, t1, rid) in enumerate(arrivals):
        alone = all(o1 <= t0 - TOL or o0 >= t1 + TOL for j, (o0, o1, _) in enumerate(arrivals) if j != i)
        if alone:
            bound = w + sum(reqs[rid]['d'].values()) + TOL
            if t1 - t0 > bound:
                raise Violation('lone_request_waited', f'lone request {rid} took {t1 - t0:.6f}s > batch_wait_time {w} + service {sum(reqs[rid]["d"].values())}', signature=['lone_request_waited'])
    competing = bnode['n'] >= 2 and len(should) >= 2
    return CaseInfo(
        nontrivial=competing or partial_by_deadline > 0 or (shortcircuit and bs > 0),
        descriptor=[tree, spec['reqs'], [c[0]['think'] for c in spec['callers']], out.sim.trace[:50]],
        classes=(f'bs{bs}', f'wait{w}', f"workers{bnode['n']}", 'partial_by_deadline' if partial_by_deadline else 'no_partial_deadline', 'shortcircuit' if shortcircuit else 'no_shortcircuit', 'nst' if bnode.get('nst') else 'plain', 'lane_observer' if have_lane else 'no_lane_observer'),
        metrics={'steps': out.sim.steps, 'max_batch_wait_ms': int(max_wait_seen * 1000), 'batches': len(blog)},
        sample={'tree': tree, 'arrivals': [c[0]['think'] for c in spec['callers']], 'batches': [[round(t - out.sim.t0, 4), widx, summ] for _, _, widx, t, summ in blog][:10]},
    )


def _warm():
    spec = {
        'tree': {'t': 'w', 'tag': 'B', 'n': 2, 'bs': 2, 'bw': 0.01, 'pre': True, 'nst': 2},
        'capacity': 64,
        'reqs': {'0': {'d': {}, 'f': {}, 'pf': {}, 'r': 0}, '1': {'d': {}, 'f': {}, 'pf': {'B': 'ValueError'}, 'r': 0}},
        'callers': [[{'rid': 0, 'timeout': 'long', 'bp': False, 'think': 0}], [{'rid': 1, 'timeout': 'long', 'bp': False, 'think': 0}]],
        'streams': [],
        'sched': {'kind': 'default'},
    }
    for _ in range(2):
        run_case(spec)


RULE = (
    'Server(ThreadServlet(batch worker, 1-3 threads, batch_size 0-5, batch_wait_time 0/10/50 ms, optional preprocess failing on generated elements, optional in-worker thread pool), '
    'optionally behind an upstream stage emitting exception values); 1-12 requests at generated virtual arrival times (bursts and lone requests); schedule default/sparse/tape/PCT. '
    'Oracle: logged call arguments well-formed (list, 1..b, genuine inputs only), every accepted request in exactly one call, time from first element taken to call <= wait, lone request latency <= wait+service. '
    'Non-trivial: >=2 workers competing for >=2 accepted requests, or a partial batch released by the deadline, or a short-circuited exception next to a batch; distinct by (tree, requests, arrivals, schedule prefix).'
)

FAMILIES = [
    Family('F1_batches', 'sim', spec_strategy(), run_case, quick=2500, thorough=120_000, shards_quick=10, rule=RULE, setup=_warm),
]
