"""C19 - EagerBatcher partitions its input and waits no longer than told (exact, in virtual time)."""
import queue
import threading
import time

from hypothesis import strategies as st

from vf.core import CaseInfo, Family, Violation, hang_check, run_sim, sched_strategy
from vf.detsched import SimAbort

ASSUMPTIONS = [
    'virtual clock with stall budget 0: time advances only when every thread is blocked, so emission instants are exact',
    'arrival times lie on a 10 ms grid, wait times are 0 / 25.1 ms / 70.3 ms so that no arrival coincides with a deadline except for wait 0; '
    'ties (an item arriving exactly at the deadline, e.g. bursts with wait 0) are accepted either way',
    'timing tolerance 1e-6 s virtual (float rounding of deadline arithmetic)',
]

TOL = 1e-6
WAITS = [0.0, 0.0251, 0.0703, 0.03, 0.05]  # the last two coincide with arrival gaps (ties: either outcome is legal, decided by the schedule)


@st.composite
def spec_strategy(draw):
    n = draw(st.integers(0, 15))
    custom = draw(st.booleans())
    gaps = draw(st.lists(st.sampled_from([0, 0, 0, 1, 1, 2, 3, 5, 8, 20]), min_size=n + 1, max_size=n + 1))
    items = []
    for i in range(n):
        if custom and draw(st.integers(0, 5)) == 0:
            items.append(None)
        else:
            items.append(draw(st.integers(0, 3)) if draw(st.booleans()) else i + 10)
    return {
        'items': items,
        'gaps': gaps,  # gaps[i] * 10ms before item i; gaps[n] before the end marker
        'marker': 'END' if custom else None,
        'batch_size': draw(st.sampled_from([1, 2, 2, 3, 3, 4, 5])),
        'wait': draw(st.sampled_from(WAITS)),
        'proc': draw(st.lists(st.sampled_from([0, 0, 1, 5, 20]), min_size=1, max_size=4)),  # x10ms consumer processing per batch
        'qkind': draw(st.sampled_from(['Queue', 'SimpleQueue'])),
        'sched': draw(sched_strategy(max_len=80, est_steps=400, depth=3)),
    }


def run_case(spec):
    from mpservice.streamer import EagerBatcher

    items = spec['items']
    n = len(items)
    bs, wait = spec['batch_size'], spec['wait']
    arrivals = []  # virtual put times of items, then of the marker
    batches = []  # (resume_time, emit_time, batch)
    t0box = {}

    def scenario():
        q = queue.Queue() if spec['qkind'] == 'Queue' else queue.SimpleQueue()
        t0box['t0'] = time.monotonic()

        def producer():
            for i, x in enumerate(items):
                g = spec['gaps'][i]
                if g:
                    time.sleep(g * 0.01)
                arrivals.append(time.monotonic())
                q.put(x)
            g = spec['gaps'][n]
            if g:
                time.sleep(g * 0.01)
            arrivals.append(time.monotonic())
            q.put(spec['marker'])

        pt = threading.Thread(target=producer, name='harness-producer')
        pt.start()
        kw = {} if spec['marker'] is None else {'endmarker': spec['marker']}
        it = iter(EagerBatcher(q, batch_size=bs, batch_wait_time=wait, **kw))
        k = 0
        while True:
            r = time.monotonic()
            try:
                b = next(it)
            except StopIteration:
                break
            e = time.monotonic()
            batches.append((r, e, list(b)))
            p = spec['proc'][k % len(spec['proc'])]
            k += 1
            if p:
                time.sleep(p * 0.01)
        pt.join()
        return True

    out = run_sim(scenario, spec['sched'], horizon=100.0, max_steps=100_000)
    hang_check(out)
    if out.exc is not None:
        raise Violation('scenario_exception', f'{type(out.exc).__name__}: {out.exc}', signature=['exc', type(out.exc).__name__])
    t0 = t0box['t0']
    arr = [a - t0 for a in arrivals]
    a_marker = arr[n]
    obs = [(r - t0, e - t0, b) for r, e, b in batches]
    flat = [x for _, _, b in obs for x in b]
    if flat != items:
        raise Violation('partition', f'concatenation of batches {[b for _, _, b in obs]} != items {items}', signature=['partition'])
    pos = 0
    deadline_released = 0
    full = 0
    for k, (r, e, b) in enumerate(obs):
        if not (1 <= len(b) <= bs):
            raise Violation('batch_size', f'batch {k} has {len(b)} items (batch_size {bs})', signature=['batch_size'])
        i = pos
        j = pos + len(b)  # exclusive
        t_first = max(r, arr[i])
        D = t_first + wait
        last = j == n
        if len(b) == bs:
            full += 1
            want_e = max(t_first, arr[j - 1])
            # every item in the batch must have been available by the deadline (ties allowed)
            if arr[j - 1] > D + TOL:
                raise Violation('waited_too_long', f'batch {k} {b} took an item that arrived at {arr[j-1]:.4f} after its deadline {D:.4f}', signature=['waited_too_long'])
            if abs(e - want_e) > TOL:
                raise Violation('full_batch_delay', f'full batch {k} {b} emitted at {e:.4f}, its last item was available at {want_e:.4f}', signature=['full_batch_delay'])
        else:
            # undersized: legal only if the end marker arrived (last batch) or nothing arrived strictly inside the wait
            nxt_arrival = arr[j] if j < n else a_marker
            if last and a_marker <= D + TOL and (abs(e - max(t_first, a_marker)) <= TOL):
                pass  # flushed by the end marker
            else:
                if nxt_arrival < D - TOL:
                    raise Violation(
                        'undersized_early',
                        f'batch {k} {b} (size {len(b)}<{bs}) emitted although the next {"item" if j < n else "marker"} arrived at {nxt_arrival:.4f} before the deadline {D:.4f} (first item taken at {t_first:.4f}); emitted at {e:.4f}',
                        signature=['undersized_early'],
                    )
                if abs(e - D) > TOL:
                    raise Violation('undersized_late', f'batch {k} {b} should have been released at its deadline {D:.4f}, emitted at {e:.4f}', signature=['undersized_late' if e > D else 'undersized_before_deadline'])
                deadline_released += 1
            if arr[j - 1] > D + TOL:
                raise Violation('waited_too_long', f'batch {k} {b} took an item that arrived at {arr[j-1]:.4f} after its deadline {D:.4f}', signature=['waited_too_long'])
        pos = j
    return CaseInfo(
        nontrivial=deadline_released >= 1 and full >= 1,
        descriptor=[items, spec['gaps'], spec['marker'], bs, wait, spec['proc'], [len(b) for _, _, b in obs]],
        classes=(f'bs{bs}', f'wait{wait}', 'custom_marker' if spec['marker'] else 'none_marker', 'deadline_release' if deadline_released else 'no_deadline_release', 'none_item' if None in items else 'no_none_item'),
        metrics={'batches': len(obs), 'steps': out.sim.steps},
        sample={'items': items, 'arrivals': [round(a, 4) for a in arr], 'batch_size': bs, 'wait': wait, 'batches': [[round(e, 4), b] for _, e, b in obs]},
    )


def _warm():
    for _ in range(2):
        run_case({'items': [1, 2, 3], 'gaps': [0, 1, 0, 1], 'marker': None, 'batch_size': 2, 'wait': 0.0251, 'proc': [0], 'qkind': 'Queue', 'sched': {'kind': 'default'}})


RULE = (
    'producer thread puts <=15 generated items (ints, None when the end marker is custom) at generated virtual times (bursts, gaps up to 200 ms) then the end marker; '
    'consumer iterates EagerBatcher(batch_size 1-5, wait 0/25.1/70.3 ms, default or custom marker) with generated per-batch processing delays; schedule default/tape/PCT. '
    'Oracle: concatenation == items; sizes 1..batch_size; an undersized batch only at the marker or with no arrival strictly inside its wait, emitted exactly at the deadline; '
    'full batch emitted when its last item is available. Non-trivial: >=1 deadline-released undersized batch and >=1 full batch; distinct by (items, arrivals, config, batch sizes).'
)

FAMILIES = [
    Family('F1_eager_batcher', 'sim', spec_strategy(), run_case, quick=5000, thorough=300_000, shards_quick=8, rule=RULE, setup=_warm),
]
