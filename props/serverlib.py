"""Shared harness for the server properties (C02 C04 C06 C07 C09 C11 C16-server).

A servlet tree is generated from a grammar; requests are self-describing values (rid, plan, trace) so that workers are pure
functions of the request and a small reference evaluator computes the expected outcome of every request.

value  = ('V', rid, plan, trace)          plan = {'d': {tag: delay}, 'f': {tag: excname}, 'pf': {tag: excname}, 'r': route}
trace  = nested tuple: () at the source, (tag, rid, child_trace) after a worker, ('ENS', (member traces...)) after an ensemble
"""
import threading
import time

from hypothesis import strategies as st

from vf.detsched import DONE, SimAbort, cur


from .workers import LOG, EXCS, EXC_NAMES, InitError, W, exc_norm, is_value, make_exc, strip_tb, tb_text, tn, unpack  # noqa: F401


def worker_cls():
    return W


def build_servlet(node, servlet_kind='thread'):
    from mpservice.mpserver import EnsembleServlet, ProcessServlet, SequentialServlet, SwitchServlet, ThreadServlet

    t = node['t']
    if t == 'w':
        kw = dict(tag=node['tag'], pre=node.get('pre', False), init_fail=node.get('init_fail'), nst=node.get('nst', 0))
        if node.get('bs') is not None:
            kw['batch_size'] = node['bs']
            if node['bs'] > 1 and node.get('bw') is not None:
                kw['batch_wait_time'] = node['bw']
        if node.get('proc'):
            return ProcessServlet(W, cpus=node.get('n', 1), **kw)
        return ThreadServlet(worker_cls(), num_threads=node.get('n', 1), **kw)
    ch = [build_servlet(c) for c in node['ch']]
    if t == 'seq':
        return SequentialServlet(*ch)
    if t == 'ens':
        return EnsembleServlet(*ch, fail_fast=node.get('ff', True))
    if t == 'switch':

        class Sw(SwitchServlet):
            def switch(self, x):
                rid, plan, trace = unpack(x)
                return plan.get('r', 0) % len(self._servlets)

        return Sw(*ch)
    raise ValueError(t)


def tree_tags(node, out=None):
    out = [] if out is None else out
    if node['t'] == 'w':
        out.append(node)
    else:
        for c in node['ch']:
            tree_tags(c, out)
    return out


# ----------------------------------------------------------------- reference evaluator


def ref_eval(node, inp):
    """inp/out: ('ok', trace) | ('err', [type, args]) | ('enserr', {...}).  Mirrors the documented semantics:
    exception values short-circuit downstream; sequential = composition; ensemble = list in member order with the
    fail_fast / all-failed EnsembleError rules; switch = selected member."""
    rid, plan = inp['rid'], inp['plan']
    if inp['kind'] != 'ok':
        return inp
    t = node['t']
    if t == 'w':
        tag = node['tag']
        if node.get('pre') and plan.get('pf', {}).get(tag):
            return dict(inp, kind='err', err=exc_norm(make_exc(plan['pf'][tag], 'pre', tag, rid)), site=f'pre:{tag}')
        forced = inp.get('forced') or {}
        if tag in forced:
            # the request shared a batch with a poison element at this (batched) worker: the whole batch fails with the poison's error
            return dict(inp, kind='err', err=forced[tag], site=f'call:{tag}', batched=True)
        if plan.get('f', {}).get(tag):
            return dict(inp, kind='err', err=exc_norm(make_exc(plan['f'][tag], tag, rid)), site=f'call:{tag}', batched=(node.get('bs') or 0) > 0)
        return dict(inp, trace=(tag, rid, inp['trace']))
    if t == 'seq':
        cur_ = inp
        for c in node['ch']:
            cur_ = ref_eval(c, cur_)
        return cur_
    if t == 'switch':
        return ref_eval(node['ch'][plan.get('r', 0) % len(node['ch'])], inp)
    if t == 'ens':
        members = [ref_eval(c, inp) for c in node['ch']]
        failed = [m['kind'] != 'ok' for m in members]
        if (node.get('ff', True) and any(failed)) or all(failed):
            return dict(inp, kind='enserr', members=members, ff=node.get('ff', True))
        traces = []
        for m in members:
            if m['kind'] == 'ok':
                traces.append(('M', rid, m['trace']))
            else:
                traces.append(('ERR', m['err'] if m['kind'] == 'err' else ['EnsembleError', '...']))
        return dict(inp, trace=('ENS', tuple(traces)))
    raise ValueError(t)


def expected(tree, rid, plan, forced=None):
    return ref_eval(tree, {'kind': 'ok', 'rid': rid, 'plan': plan, 'trace': (), 'forced': forced or {}})


def batch_poison_map(tree, reqs, log):
    """rid -> {tag: error norm} for logged batches that contain a poison element (the worker raises for the first poison in batch order)"""
    out = {}
    for rec in log:
        if rec[0] != 'batch' or not isinstance(rec[4], list):
            continue
        tag = rec[1]
        members = [r for r in rec[4] if isinstance(r, int)]
        poison = [r for r in members if reqs.get(r, {}).get('f', {}).get(tag)]
        if poison:
            err = exc_norm(make_exc(reqs[poison[0]]['f'][tag], tag, poison[0]))
            for r in members:
                out.setdefault(r, {})[tag] = err
    return out


def batched_fail_tags(tree, plan):
    """tags of batched workers at which this request is a poison element"""
    return [n['tag'] for n in tree_tags(tree) if (n.get('bs') or 0) > 0 and plan.get('f', {}).get(n['tag'])]


def norm_outcome(kind, payload):
    """normalise what a caller observed"""
    from mpservice.multiprocessing.remote_exception import EnsembleError, RemoteException

    if kind == 'value':
        try:
            rid, plan, trace = unpack(payload)
            return {'kind': 'ok', 'rid': rid, 'trace': trace}
        except Exception:
            return {'kind': 'garbage', 'repr': repr(payload)[:200]}
    e = payload
    if isinstance(e, EnsembleError):
        z = e.args[1]
        ys = []
        for y in z['y']:
            if y is None:
                ys.append(None)
            elif isinstance(y, RemoteException):
                ys.append(('ERR', exc_norm(y.exc)))
            elif isinstance(y, BaseException):
                ys.append(('ERR', exc_norm(y)))
            else:
                try:
                    r, p, t = unpack(y)
                    ys.append(('M', r, t))
                except Exception:
                    ys.append(('??', repr(y)[:80]))
        return {'kind': 'enserr', 'y': ys, 'n': z['n']}
    return {'kind': 'err', 'err': exc_norm(e), 'exc': e}


def match_expected(obs, exp):
    """None if the observed outcome is what the reference allows, else a short reason"""
    if exp['kind'] == 'ok':
        if obs['kind'] != 'ok':
            return f"expected value, got {obs['kind']} {obs.get('err') or obs.get('y') or obs.get('repr')}"
        if obs['rid'] != exp['rid'] or obs['trace'] != exp['trace']:
            return f"value mismatch: got rid={obs['rid']} trace={obs['trace']}, expected rid={exp['rid']} trace={exp['trace']}"
        return None
    if exp['kind'] == 'err':
        if obs['kind'] != 'err':
            return f"expected error {exp['err']}, got {obs['kind']} {obs.get('trace') or obs.get('y')}"
        if obs['err'] != exp['err']:
            return f"expected error {exp['err']}, got {obs['err']}"
        return None
    if exp['kind'] == 'enserr':
        if obs['kind'] != 'enserr':
            return f"expected EnsembleError, got {obs['kind']} {obs.get('err') or obs.get('trace')}"
        members = exp['members']
        if len(obs['y']) != len(members):
            return f"EnsembleError has {len(obs['y'])} members, ensemble has {len(members)}"
        nerr = 0
        for i, (y, m) in enumerate(zip(obs['y'], members)):
            if y is None:
                continue
            if y[0] == 'ERR':
                nerr += 1
                if m['kind'] == 'ok':
                    return f'member {i} reported error {y[1]} but it succeeds for this request'
                if m['kind'] == 'err' and y[1] != m['err']:
                    return f"member {i} reported {y[1]}, expected {m['err']}"
                if m['kind'] == 'enserr' and y[1][0] != 'EnsembleError':
                    return f'member {i} reported {y[1]}, expected a nested EnsembleError'
            elif y[0] == 'M':
                if m['kind'] != 'ok':
                    return f'member {i} reported a value but it fails for this request'
                if y[1] != exp['rid'] or y[2] != m['trace']:
                    return f"member {i} value mismatch: got rid={y[1]} trace={y[2]}, expected rid={exp['rid']} trace={m['trace']}"
            else:
                return f'member {i} holds garbage {y}'
        if nerr == 0:
            return 'EnsembleError without any member error'
        if not exp['ff'] and any(y is None for y in obs['y']):
            return 'fail_fast=False EnsembleError with members not received'
        if sum(1 for y in obs['y'] if y is not None) != obs['n']:
            return f"EnsembleError n={obs['n']} does not match received members {obs['y']}"
        return None
    return 'bad expectation'


# ----------------------------------------------------------------- strategies


DELAYS = [0.0, 0.0, 0.001, 0.005, 0.02, 0.1]


@st.composite
def tree_strategy(draw, depth=2, max_workers=8, batch=True, allow=('w', 'seq', 'ens', 'switch')):
    counter = {'n': 0, 'workers': 0}

    def gen(d):
        kinds = ['w']
        if d > 0 and counter['workers'] < max_workers - 2:
            kinds += [k for k in ('seq', 'ens', 'switch') if k in allow]
        t = draw(st.sampled_from(kinds))
        if t == 'w':
            tag = chr(ord('A') + counter['n'])
            counter['n'] += 1
            n = draw(st.sampled_from([1, 1, 2, 3]))
            counter['workers'] += n
            node = {'t': 'w', 'tag': tag, 'n': n}
            if batch:
                bs = draw(st.sampled_from([None, None, 0, 1, 2, 3]))
                if bs is not None:
                    node['bs'] = bs
                    if bs > 1:
                        node['bw'] = draw(st.sampled_from([0, 0.01, 0.05]))
            node['pre'] = draw(st.booleans()) if draw(st.integers(0, 2)) == 0 else False
            return node
        k = draw(st.integers(2, 3)) if t != 'switch' else draw(st.sampled_from([1, 2, 2]))
        node = {'t': t, 'ch': [gen(d - 1) for _ in range(k)]}
        if t == 'ens':
            node['ff'] = draw(st.booleans())
        return node

    return gen(depth)


@st.composite
def plan_strategy(draw, tree, p_fail=0.25, p_delay=0.7):
    nodes = tree_tags(tree)
    plan = {'d': {}, 'f': {}, 'pf': {}, 'r': draw(st.integers(0, 1))}
    for n in nodes:
        if draw(st.floats(0, 1)) < p_delay:
            d = draw(st.sampled_from(DELAYS))
            if d:
                plan['d'][n['tag']] = d
    if draw(st.floats(0, 1)) < p_fail:
        k = draw(st.integers(1, min(2, len(nodes))))
        for n in draw(st.lists(st.sampled_from(nodes), min_size=k, max_size=k)):
            if n.get('pre') and draw(st.booleans()):
                plan['pf'][n['tag']] = draw(st.sampled_from(EXC_NAMES))
            else:
                plan['f'][n['tag']] = draw(st.sampled_from(EXC_NAMES))
    return plan


# ----------------------------------------------------------------- scenario runner


class Obs:
    pass


def total_service_time(tree, plan):
    return sum(plan.get('d', {}).values()) + sum((n.get('bw') or 0) for n in tree_tags(tree)) + 0.05


def run_server(spec, *, lines=False, horizon=20000.0, max_steps=800_000, max_stall=0.0, stall_budget=0.0, alloc=None, async_mode=False, probes=0, cycles=1, strip=True):
    """spec: {tree, capacity, reqs: {rid: plan}, callers: [[step...]], streams: [{rids:[...], abandon: k|None, timeout}], sched}
    step = {'rid', 'timeout': float|'long', 'bp': bool, 'think': float}
    Returns Obs with everything the per-property oracles need."""
    from vf.core import run_sim

    from mpservice.mpserver import AsyncServer, Server, ServerBacklogFull
    from mpservice import TimeoutError as MpTimeoutError

    del LOG[:]
    tree = spec['tree']
    reqs = {int(k): v for k, v in spec['reqs'].items()}
    obs = Obs()
    obs.calls = []  # dict(rid, t0, t1, timeout, bp, outcome kind, payload)
    obs.streams = []
    obs.max_backlog = 0
    obs.overshoot = None
    obs.full_and_blocked = False
    obs.enter_exc = None
    obs.exit_exc = None
    obs.after_exit_alive = None
    obs.idle_backlog = None
    obs.gather_alive = None
    obs.probe_results = []
    obs.cycle_info = []
    box = {'server': None}
    LONG = 1000.0

    def value(rid):
        return ('V', rid, reqs[rid], ())

    def on_step(sim):
        s = box['server']
        if s is not None:
            b = s.backlog
            if b > obs.max_backlog:
                obs.max_backlog = b
            if b > s.capacity and obs.overshoot is None:
                obs.overshoot = (b, s.capacity, sim.steps)

    def do_call(server, step, rec_list):
        rid = step['rid']
        to = LONG if step['timeout'] == 'long' else step['timeout']
        rec = {'rid': rid, 'timeout': step['timeout'], 'bp': step['bp'], 't0': time.monotonic(), 'backlog_before': server.backlog}
        try:
            y = server.call(value(rid), timeout=to, backpressure=step['bp'])
            rec['kind'], rec['payload'] = 'value', y
        except SimAbort:
            raise
        except ServerBacklogFull as e:
            rec['kind'], rec['payload'] = 'backlogfull', e
        except MpTimeoutError as e:
            rec['kind'], rec['payload'] = 'timeout', e
        except BaseException as e:
            rec['kind'], rec['payload'] = 'exc', e
        rec['t1'] = time.monotonic()
        if isinstance(rec['payload'], BaseException):
            # keep the traceback as text, then drop frame references like a real caller that has handled the error
            # (frames keep the request's Future alive, which would hide identity recycling)
            rec['tb_text'] = tb_text(rec['payload'])
            if strip:
                strip_tb(rec['payload'])
        rec_list.append(rec)

    def caller(server, script, rec_list):
        for step in script:
            if step.get('think'):
                time.sleep(step['think'])
            do_call(server, step, rec_list)

    def streamer(server, sspec, srec):
        rids = sspec['rids']
        srec['items'] = []
        srec['t0'] = time.monotonic()
        try:
            it = server.stream([value(r) for r in rids], return_x=True, return_exceptions=True, timeout=LONG if sspec.get('timeout', 'long') == 'long' else sspec['timeout'])
            k = 0
            ab = sspec.get('abandon')
            if ab is not None and ab <= 0:
                srec['term'] = 'abandoned'
            else:
                for x, y in it:
                    srec['items'].append((x, y))
                    k += 1
                    if sspec.get('cons_delay'):
                        time.sleep(sspec['cons_delay'])
                    if ab is not None and k >= ab:
                        break
                srec['term'] = 'abandoned' if (ab is not None and k >= ab and k < len(rids)) else 'end'
            it.close()
        except SimAbort:
            raise
        except BaseException as e:
            srec['term'] = ('exc', e)
        srec['t1'] = time.monotonic()

    def scenario():
        sim = cur().sim
        servlet = build_servlet(tree)
        server = Server(servlet, capacity=spec['capacity'])
        for cyc in range(cycles):
            log_start = len(LOG)
            base_threads = set(t.idx for t in sim.threads if t.state != DONE)
            try:
                server.__enter__()
            except SimAbort:
                raise
            except BaseException as e:
                obs.enter_exc = e
                obs.after_enter_fail_alive = [(t.idx, t.name) for t in sim.threads if t.state != DONE and t.idx not in base_threads]
                return obs
            box['server'] = server
            threads = []
            recs = []
            for script in spec['callers'] if cyc == 0 else spec.get('callers2', spec['callers']):
                th = threading.Thread(target=caller, args=(server, script, recs), name='harness-caller')
                threads.append(th)
            srecs = []
            for sspec in spec.get('streams', []) if cyc == 0 else []:
                srec = {'spec': sspec}
                srecs.append(srec)
                th = threading.Thread(target=streamer, args=(server, sspec, srec), name='harness-streamer')
                threads.append(th)
            for th in threads:
                th.start()
            for th in threads:
                th.join()
            obs.calls.extend(dict(r, cycle=cyc) for r in recs)
            obs.streams.extend(srecs)
            # probes: the server must still answer, correctly (C07)
            prs = []
            for k in range(probes):
                rid = spec['probe_rids'][k]
                do_call(server, {'rid': rid, 'timeout': 'long', 'bp': False}, prs)
            obs.probe_results.extend(prs)
            # quiesce: wait (virtual) for every accepted request's result to emerge, then the backlog must be 0
            tmax = max([total_service_time(tree, p) for p in reqs.values()] or [0.1])
            if spec.get('quiesce', True):
                time.sleep(tmax * (len(reqs) + 2) + 1.0)
            idle_backlog = server.backlog
            gather_alive = None
            for _ in range(5):
                try:
                    gather_alive = server.debug_info()['gather_thread']
                    break
                except RuntimeError:
                    # debug_info iterates the ledger while the gather thread may be popping from it ("dictionary changed size
                    # during iteration"); not part of any listed property - retry
                    time.sleep(0.0001)
            box['server'] = None
            try:
                server.__exit__(None, None, None)
            except SimAbort:
                raise
            except BaseException as e:
                obs.exit_exc = e
            alive = [(t.idx, t.name) for t in sim.threads if t.state != DONE and t.idx not in base_threads]
            obs.cycle_info.append({'idle_backlog': idle_backlog, 'gather_alive': gather_alive, 'alive_after_exit': alive, 'backlog_after_exit': server.backlog, 'log_range': (log_start, len(LOG))})
            if obs.exit_exc is not None:
                break
        return obs

    if alloc is not None:
        import mpservice.mpserver._server as srvmod

        srvmod.id = alloc
    try:
        out = run_sim(scenario, spec['sched'], horizon=horizon, max_steps=max_steps, on_step=on_step, max_stall=max_stall, stall_budget=stall_budget, lines=lines)
    finally:
        if alloc is not None:
            try:
                del srvmod.id
            except AttributeError:
                pass
    obs.out = out
    obs.log = list(LOG)
    return obs


def run_server_real(spec):
    """the same scenario with real threads / real processes (ProcessServlet members); no schedule control, no monitors"""
    from mpservice import TimeoutError as MpTimeoutError
    from mpservice.mpserver import Server, ServerBacklogFull

    tree = spec['tree']
    reqs = {int(k): v for k, v in spec['reqs'].items()}
    obs = Obs()
    obs.calls, obs.streams, obs.log = [], [], []
    obs.enter_exc = obs.exit_exc = None
    obs.max_backlog = 0

    def value(rid):
        return ('V', rid, reqs[rid], ())

    server = Server(build_servlet(tree), capacity=spec['capacity'])
    try:
        server.__enter__()
    except BaseException as e:
        obs.enter_exc = e
        return obs
    try:
        def caller(script):
            for step in script:
                rid = step['rid']
                rec = {'rid': rid, 'timeout': step['timeout'], 'bp': step['bp'], 't0': time.monotonic(), 'backlog_before': server.backlog}
                try:
                    y = server.call(value(rid), timeout=120 if step['timeout'] == 'long' else step['timeout'], backpressure=step['bp'])
                    rec['kind'], rec['payload'] = 'value', y
                except ServerBacklogFull as e:
                    rec['kind'], rec['payload'] = 'backlogfull', e
                except MpTimeoutError as e:
                    rec['kind'], rec['payload'] = 'timeout', e
                except BaseException as e:
                    rec['kind'], rec['payload'] = 'exc', e
                rec['t1'] = time.monotonic()
                if isinstance(rec['payload'], BaseException):
                    rec['tb_text'] = tb_text(rec['payload'])
                obs.calls.append(rec)

        def streamer(sspec, srec):
            srec['items'] = []
            srec['t0'] = time.monotonic()
            try:
                for x, y in server.stream([value(r) for r in sspec['rids']], return_x=True, return_exceptions=True, timeout=120):
                    srec['items'].append((x, y))
                srec['term'] = 'end'
            except BaseException as e:
                srec['term'] = ('exc', e)
            srec['t1'] = time.monotonic()

        ths = [threading.Thread(target=caller, args=(sc,)) for sc in spec['callers']]
        for sspec in spec.get('streams', []):
            srec = {'spec': sspec}
            obs.streams.append(srec)
            ths.append(threading.Thread(target=streamer, args=(sspec, srec)))
        for t in ths:
            t.start()
        for t in ths:
            t.join()
    finally:
        try:
            server.__exit__(None, None, None)
        except BaseException as e:
            obs.exit_exc = e
    return obs


def run_async_server(spec, *, horizon=20000.0, max_steps=800_000, probes=0, strip=True):
    """AsyncServer twin of run_server: callers are tasks on a scheduler-aware event loop (one sim thread), workers are threads."""
    import asyncio

    from vf.core import run_sim

    from mpservice import TimeoutError as MpTimeoutError
    from mpservice.mpserver import AsyncServer, ServerBacklogFull

    del LOG[:]
    tree = spec['tree']
    reqs = {int(k): v for k, v in spec['reqs'].items()}
    obs = Obs()
    obs.calls, obs.streams, obs.probe_results, obs.cycle_info = [], [], [], []
    obs.max_backlog = 0
    obs.overshoot = None
    obs.enter_exc = obs.exit_exc = None
    box = {'server': None}
    LONG = 1000.0

    def value(rid):
        return ('V', rid, reqs[rid], ())

    def on_step(sim):
        s = box['server']
        if s is not None:
            b = s.backlog
            if b > obs.max_backlog:
                obs.max_backlog = b
            if b > s.capacity and obs.overshoot is None:
                obs.overshoot = (b, s.capacity, sim.steps)

    async def do_call(server, step, rec_list):
        rid = step['rid']
        to = LONG if step['timeout'] == 'long' else step['timeout']
        rec = {'rid': rid, 'timeout': step['timeout'], 'bp': step['bp'], 't0': time.monotonic(), 'backlog_before': server.backlog, 'cycle': 0}
        try:
            if step.get('cancel_after') is not None:
                rec['untimed'] = True  # the harness itself sleeps between t0 and the outcome
                task = asyncio.ensure_future(server.call(value(rid), timeout=to, backpressure=step['bp']))
                await asyncio.sleep(step['cancel_after'])
                task.cancel()
                y = await task
            else:
                y = await server.call(value(rid), timeout=to, backpressure=step['bp'])
            rec['kind'], rec['payload'] = 'value', y
        except SimAbort:
            raise
        except asyncio.CancelledError as e:
            rec['kind'], rec['payload'] = 'cancelled', e
        except ServerBacklogFull as e:
            rec['kind'], rec['payload'] = 'backlogfull', e
        except MpTimeoutError as e:
            rec['kind'], rec['payload'] = 'timeout', e
        except BaseException as e:
            rec['kind'], rec['payload'] = 'exc', e
        rec['t1'] = time.monotonic()
        if isinstance(rec['payload'], BaseException):
            rec['tb_text'] = tb_text(rec['payload'])
            if strip:
                strip_tb(rec['payload'])
        rec_list.append(rec)

    async def caller(server, script):
        for step in script:
            if step.get('think'):
                await asyncio.sleep(step['think'])
            await do_call(server, step, obs.calls)

    async def streamer(server, sspec, srec):
        rids = sspec['rids']
        srec['items'] = []
        srec['t0'] = time.monotonic()

        async def source():
            for r in rids:
                yield value(r)

        try:
            ait = server.stream(source(), return_x=True, return_exceptions=True, timeout=LONG)
            k = 0
            ab = sspec.get('abandon')
            if ab is not None and ab <= 0:
                srec['term'] = 'abandoned'
            else:
                async for x, y in ait:
                    srec['items'].append((x, y))
                    k += 1
                    if sspec.get('cons_delay'):
                        await asyncio.sleep(sspec['cons_delay'])
                    if ab is not None and k >= ab:
                        break
                srec['term'] = 'abandoned' if (ab is not None and k >= ab and k < len(rids)) else 'end'
            await ait.aclose()
        except SimAbort:
            raise
        except BaseException as e:
            srec['term'] = ('exc', e)
        srec['t1'] = time.monotonic()

    def scenario():
        sim = cur().sim

        async def main():
            server = AsyncServer(build_servlet(tree), capacity=spec['capacity'])
            base_threads = set(t.idx for t in sim.threads if t.state != DONE)
            try:
                await server.__aenter__()
            except SimAbort:
                raise
            except BaseException as e:
                obs.enter_exc = e
                return
            box['server'] = server
            tasks = [asyncio.ensure_future(caller(server, sc)) for sc in spec['callers']]
            for sspec in spec.get('streams', []):
                srec = {'spec': sspec}
                obs.streams.append(srec)
                tasks.append(asyncio.ensure_future(streamer(server, sspec, srec)))
            await asyncio.gather(*tasks)
            for k in range(probes):
                await do_call(server, {'rid': spec['probe_rids'][k], 'timeout': 'long', 'bp': False}, obs.probe_results)
            tmax = max([total_service_time(tree, p) for p in reqs.values()] or [0.1])
            if spec.get('quiesce', True):
                await asyncio.sleep(tmax * (len(reqs) + 2) + 1.0)
            idle_backlog = server.backlog
            gather_alive = None
            for _ in range(5):
                try:
                    gather_alive = server.debug_info()['gather_thread']
                    break
                except RuntimeError:
                    await asyncio.sleep(0.0001)
            box['server'] = None
            try:
                await server.__aexit__(None, None, None)
            except SimAbort:
                raise
            except BaseException as e:
                obs.exit_exc = e
            alive = [(t.idx, t.name) for t in sim.threads if t.state != DONE and t.idx not in base_threads and not t.name.startswith('asyncio_')]
            obs.cycle_info.append({'idle_backlog': idle_backlog, 'gather_alive': gather_alive, 'alive_after_exit': alive, 'backlog_after_exit': server.backlog, 'log_range': (0, len(LOG))})

        asyncio.run(main())
        return obs

    out = run_sim(scenario, spec['sched'], horizon=horizon, max_steps=max_steps, on_step=on_step)
    obs.out = out
    obs.log = list(LOG)
    return obs
