"""C15 - exceptions keep type, args and traceback text across any number of pickle hops (also nested in EnsembleError)."""
import pickle

from hypothesis import strategies as st

from vf.core import CaseInfo, Family, Violation

from .workers import CustomError, CustomError2

ASSUMPTIONS = [
    'generated exception classes are, by construction, classes that round-trip under plain pickle (builtin, custom with default constructor, custom __init__ '
    'forwarding its arguments, custom __reduce__, multi-argument, keyword state via __reduce__)',
    '"originally formatted traceback" = the text RemoteException produced at the first hop, without its "[process name] " prefix',
    'a hop is pickle.dumps/loads of RemoteException(x) in this process (the process name prefix is therefore constant); real process boundaries are exercised by C04/C12',
]


class ReduceError(Exception):
    """custom __reduce__ with extra state"""

    def __init__(self, code, detail=None):
        super().__init__(code)
        self.code = code
        self.detail = detail

    def __reduce__(self):
        return (ReduceError, (self.code, self.detail))

    def __eq__(self, other):
        return type(other) is ReduceError and (self.code, self.detail) == (other.code, other.detail)

    __hash__ = Exception.__hash__


class MultiArgError(Exception):
    def __init__(self, a, b, c):
        super().__init__(a, b, c)


class BaseOnly(BaseException):
    pass


CLASSES = {
    'ValueError': ValueError,
    'KeyError': KeyError,
    'OSError': OSError,
    'ZeroDivisionError': ZeroDivisionError,
    'RuntimeError': RuntimeError,
    'CustomError': CustomError,
    'CustomError2': CustomError2,
    'ReduceError': ReduceError,
    'MultiArgError': MultiArgError,
    'BaseOnly': BaseOnly,
    'TimeoutError': TimeoutError,
}

ARG = st.one_of(st.integers(-5, 5), st.text(max_size=8), st.none(), st.tuples(st.integers(0, 3), st.text(max_size=3)), st.floats(allow_nan=False, allow_infinity=False, width=16))


@st.composite
def exc_spec(draw, allow_chain=True):
    cls = draw(st.sampled_from(list(CLASSES)))
    if cls == 'CustomError2':
        args = [draw(ARG), draw(ARG)]
    elif cls == 'ReduceError':
        args = [draw(ARG), draw(ARG)]
    elif cls == 'MultiArgError':
        args = [draw(ARG), draw(ARG), draw(ARG)]
    elif cls == 'OSError':
        args = draw(st.one_of(st.tuples(st.integers(1, 40), st.text(max_size=6)).map(list), st.lists(ARG, max_size=1)))
    else:
        args = draw(st.lists(ARG, max_size=3))
    if args and draw(st.integers(0, 9)) == 0:
        # a long message (built, not drawn character by character) makes the formatted traceback several kB long
        args[0] = draw(st.sampled_from(['ab', 'x', 'long line\n'])) * draw(st.sampled_from([400, 2500]))
    spec = {'cls': cls, 'args': args, 'depth': draw(st.one_of(st.integers(1, 6), st.integers(1, 6), st.sampled_from([20, 45]))), 'chain': None}
    if allow_chain and draw(st.integers(0, 3)) == 0:
        spec['chain'] = {'kind': draw(st.sampled_from(['cause', 'context', 'from_none'])), 'inner': draw(exc_spec(allow_chain=False))}
    return spec


def _jsonify_args(args):
    return [tuple(a) if isinstance(a, list) else a for a in args]


def build_exc(spec):
    cls = CLASSES[spec['cls']]
    return cls(*_jsonify_args(spec['args']))


def _frame(n, fn):
    if n <= 1:
        return fn()
    return _frame(n - 1, fn)


def raise_spec(spec):
    """raise the generated exception through a generated call chain; returns the caught exception (with traceback)"""

    def origin_failure_site():
        if spec['chain'] is None:
            raise build_exc(spec)
        inner = spec['chain']['inner']
        try:
            _frame(inner['depth'], lambda: (_ for _ in ()).throw(build_exc(inner)))
        except BaseException as ie:
            if spec['chain']['kind'] == 'cause':
                raise build_exc(spec) from ie
            if spec['chain']['kind'] == 'from_none':
                raise build_exc(spec) from None
            raise build_exc(spec)

    try:
        _frame(spec['depth'], origin_failure_site)
    except BaseException as e:
        return e
    raise AssertionError('did not raise')


@st.composite
def case_spec(draw):
    nest = draw(st.integers(0, 3)) == 0
    spec = {'hops': [draw(st.sampled_from(['forward', 'forward', 'reraise'])) for _ in range(draw(st.integers(1, 4)))]}
    if nest:
        k = draw(st.integers(2, 4))
        members = []
        for _ in range(k):
            kind = draw(st.sampled_from(['exc', 'exc', 'value', 'none']))
            members.append({'kind': kind, 'exc': draw(exc_spec()) if kind == 'exc' else None, 'value': draw(st.integers(0, 9)) if kind == 'value' else None})
        if not any(m['kind'] == 'exc' for m in members):
            members[0] = {'kind': 'exc', 'exc': draw(exc_spec()), 'value': None}
        spec['ensemble'] = members
    else:
        spec['exc'] = draw(exc_spec())
    return spec


def strip_prefix(tb):
    # '[MainProcess] Traceback ...'
    return tb.split('] ', 1)[1] if tb.startswith('[') and '] ' in tb else tb


def args_equal(a, b):
    return len(a) == len(b) and all(type(x) is type(y) and x == y for x, y in zip(a, b))


def check_one(label, orig, tb0_core, y, hop, forward_only, tb_prev):
    from mpservice.multiprocessing.remote_exception import get_remote_traceback, is_remote_exception

    if type(y) is not type(orig):
        raise Violation('type_changed', f'{label} hop {hop}: {type(orig).__name__} became {type(y).__name__}', signature=['type_changed'])
    if not args_equal(y.args, orig.args):
        raise Violation('args_changed', f'{label} hop {hop}: args {orig.args!r} became {y.args!r}', signature=['args_changed', type(orig).__name__])
    if isinstance(orig, ReduceError) and (y.code, y.detail) != (orig.code, orig.detail):
        raise Violation('state_changed', f'{label} hop {hop}: state {(orig.code, orig.detail)!r} became {(y.code, y.detail)!r}', signature=['state_changed'])
    if not is_remote_exception(y):
        raise Violation('not_remote', f'{label} hop {hop}: is_remote_exception is False for {y!r}', signature=['not_remote'])
    tb = get_remote_traceback(y)
    if not isinstance(tb, str) or tb0_core not in tb:
        raise Violation('traceback_lost', f'{label} hop {hop}: remote traceback no longer contains the originally formatted traceback;\n--- original ---\n{tb0_core[-500:]}\n--- now ---\n{str(tb)[-700:]}', signature=['traceback_lost', 'forward' if forward_only else 'reraise'])
    if forward_only and tb_prev is not None and tb != tb_prev:
        raise Violation('traceback_changed_on_forward', f'{label} hop {hop}: text changed although the exception was only forwarded', signature=['traceback_changed_on_forward'])
    return tb


def run_case(spec):
    from mpservice.multiprocessing.remote_exception import EnsembleError, RemoteException

    hops = spec['hops']
    if 'exc' in spec:
        e0 = raise_spec(spec['exc'])
        x = e0
        tb0_core = None
        tb_prev = None
        forward_only = True
        for h, mode in enumerate(hops, 1):
            if h > 1 and mode == 'reraise':
                forward_only = False
                try:
                    raise x
                except BaseException as ee:
                    x = ee
            r = RemoteException(x)
            if tb0_core is None:
                tb0_core = strip_prefix(r.tb)
                # the originally formatted traceback must name the failure site
                if 'origin_failure_site' not in tb0_core:
                    raise Violation('traceback_incomplete', f'first-hop traceback does not name the failure site: {tb0_core[-400:]}', signature=['traceback_incomplete'])
            y = pickle.loads(pickle.dumps(r))
            tb_prev = check_one('exception', e0, tb0_core, y, h, forward_only, tb_prev if forward_only else None)
            x = y
        nontrivial = len(hops) >= 2 or spec['exc']['chain'] is not None or spec['exc']['cls'] not in ('ValueError', 'KeyError', 'RuntimeError', 'ZeroDivisionError')
        return CaseInfo(nontrivial=nontrivial, descriptor=spec, classes=(spec['exc']['cls'], f'hops{len(hops)}', 'forward_only' if forward_only else 'reraised', 'chained' if spec['exc']['chain'] else 'plain'), sample={'exc': spec['exc'], 'hops': hops})
    # nested in an EnsembleError
    members = spec['ensemble']
    origs = []
    ys = []
    cores = []
    for m in members:
        if m['kind'] == 'exc':
            e = raise_spec(m['exc'])
            r = RemoteException(e)
            origs.append(e)
            cores.append(strip_prefix(r.tb))
            ys.append(r)
        elif m['kind'] == 'value':
            origs.append(None)
            cores.append(None)
            ys.append(('value', m['value']))
        else:
            origs.append(None)
            cores.append(None)
            ys.append(None)
    try:
        raise EnsembleError({'y': ys, 'n': sum(1 for v in ys if v is not None)})
    except EnsembleError as ee:
        x = ee
    msg0 = x.args[0]
    outer_core = None
    prevs = [None] * len(members)
    outer_prev = None
    forward_only = True
    for h, mode in enumerate(hops, 1):
        if h > 1 and mode == 'reraise':
            forward_only = False
            try:
                raise x
            except BaseException as ee:
                x = ee
        r = RemoteException(x)
        if outer_core is None:
            outer_core = strip_prefix(r.tb)
        y = pickle.loads(pickle.dumps(r))
        if type(y) is not EnsembleError:
            raise Violation('type_changed', f'EnsembleError became {type(y).__name__} at hop {h}', signature=['type_changed', 'EnsembleError'])
        outer_prev = check_one_outer(y, outer_core, h, forward_only, outer_prev if forward_only else None, msg0)
        z = y.args[1]
        if len(z['y']) != len(members) or z['n'] != sum(1 for v in ys if v is not None):
            raise Violation('ensemble_shape', f"hop {h}: y has {len(z['y'])} members / n={z['n']}", signature=['ensemble_shape'])
        for i, (m, v) in enumerate(zip(members, z['y'])):
            if m['kind'] == 'none':
                if v is not None:
                    raise Violation('ensemble_member', f'hop {h}: member {i} should be None, is {v!r}', signature=['ensemble_member'])
            elif m['kind'] == 'value':
                if tuple(v) != ('value', m['value']):
                    raise Violation('ensemble_member', f'hop {h}: member {i} value changed to {v!r}', signature=['ensemble_member'])
            else:
                if isinstance(v, RemoteException):
                    raise Violation('ensemble_member', f'hop {h}: member {i} is still a RemoteException wrapper after unpickling', signature=['ensemble_member'])
                prevs[i] = check_one(f'ensemble member {i}', origs[i], cores[i], v, h, forward_only, prevs[i] if forward_only else None)
        x = y
    return CaseInfo(nontrivial=True, descriptor=spec, classes=('ensemble', f'hops{len(hops)}', 'forward_only' if forward_only else 'reraised', f'members{len(members)}'), sample={'ensemble': [m['kind'] if m['kind'] != 'exc' else m['exc']['cls'] for m in members], 'hops': hops})


def check_one_outer(y, core, hop, forward_only, prev, msg0):
    from mpservice.multiprocessing.remote_exception import get_remote_traceback, is_remote_exception

    if not is_remote_exception(y):
        raise Violation('not_remote', f'EnsembleError hop {hop}: is_remote_exception is False', signature=['not_remote', 'EnsembleError'])
    tb = get_remote_traceback(y)
    if core not in tb:
        raise Violation('traceback_lost', f'EnsembleError hop {hop}: remote traceback lost the original text', signature=['traceback_lost', 'EnsembleError'])
    if forward_only and prev is not None and tb != prev:
        raise Violation('traceback_changed_on_forward', f'EnsembleError hop {hop}: text changed on forward', signature=['traceback_changed_on_forward', 'EnsembleError'])
    return tb


RULE = (
    'exception class from a zoo of pickle-round-trippable classes (builtin incl. OSError(errno, msg), custom, custom __init__, custom __reduce__ with state, 3-argument, BaseException subclass), generated args '
    '(ints, text, None, tuples, floats), traceback depth 1-6 (occasionally 20 or 45 frames) through generated call chains, optional explicit cause / implicit context / from None chain, 1-4 hops each "forward" or "re-raise then wrap", '
    'optionally nested at generated positions of an EnsembleError next to values and None. Oracle after every hop: same class, equal args (and state), is_remote_exception, remote traceback contains the '
    'first-hop text; identical text on forward-only hops; nested members likewise. Non-trivial: >=2 hops, a chain, a non-plain class, or nesting; distinct by the whole case.'
)

FAMILIES = [
    Family('F1_roundtrip', 'pure', case_spec(), run_case, quick=20_000, thorough=1_500_000, shards_quick=8, rule=RULE, fuzz=('mpservice.multiprocessing.remote_exception',)),
]
