"""C16 - async variants give the same answers as their sync counterparts."""
import asyncio

from hypothesis import strategies as st

from vf.core import CaseInfo, Family, Violation, hang_check, run_sim, sched_strategy
from vf.detsched import SimAbort

from . import c01
from . import streamlib as sl

ASSUMPTIONS = [
    'asyncio runs on a scheduler-aware SelectorEventLoop (virtual time); within one loop task interleaving follows completion times, '
    'so generated per-value durations enumerate completion orders',
    'both sides are also compared with the sequential reference so that a fault shared by sync and async cannot hide',
]


@st.composite
def spec_strategy(draw):
    spec = draw(c01.base_spec(25))
    # over-weight preprocessor failures at the first / a middle / the last position
    xs = spec['xs']
    if xs and draw(st.integers(0, 2)) == 0:
        spec['pre'] = draw(st.sampled_from(['identity', 'extract']))
        pos = draw(st.sampled_from([0, len(xs) // 2, len(xs) - 1]))
        spec['pre_fails'] = [xs[pos]]
    spec['family'] = draw(st.sampled_from(['fifo', 'parmap', 'parmap']))
    spec['c'] = draw(st.sampled_from([1, 1, 2, 2, 3, 4]))
    spec['capacity'] = draw(st.sampled_from([1, 1, 2, 3, 4, 6]))
    spec['src_delays'] = draw(sl.delays_strategy(3))
    spec['sched'] = draw(sched_strategy(max_len=120, est_steps=1500, depth=3))
    return spec


async def _asource(xs, delays):
    for i, x in enumerate(xs):
        d = delays[i % len(delays)]
        if d > 0:
            await asyncio.sleep(d)
        yield x


def _variant(spec, name, log):
    """returns a zero-arg scenario function producing (outs, term)"""
    from mpservice.concurrent.futures import ThreadPoolExecutor
    from mpservice.streamer import Stream, async_fifo_stream, fifo_stream
    from mpservice.streamer._streamer_async import AsyncStream

    xs = [c01.untuple(v) for v in spec['xs']]
    pre = c01.make_pre(spec['pre'], spec['pre_fails'], spec['exc'])
    kw = {} if pre is None else {'preprocessor': pre}
    f = c01.make_f(spec['fails'], spec['exc'], spec['delays'], log)
    af = c01.make_af(spec['fails'], spec['exc'], spec['delays'], log)
    common = dict(return_x=spec['rx'], return_exceptions=spec['rexc'], **kw)

    def sync_run(make_it):
        def scenario():
            it, cleanup = make_it()
            outs, term = sl.consume(iter(it), {'kind': 'all'}, spec['cons_delays'])
            for c in cleanup:
                c()
            return outs, term

        return scenario

    def async_run(make_ait):
        def scenario():
            async def main():
                ait, cleanup = make_ait()
                outs, term = await sl.aconsume(ait, {'kind': 'all'}, spec['cons_delays'])
                for c in cleanup:
                    c()
                return outs, term

            return asyncio.run(main())

        return scenario

    if name == 'fifo_stream':

        def mk():
            pool = ThreadPoolExecutor(spec['c'])
            return fifo_stream(iter(xs), lambda x: pool.submit(f, x, loud_exception=False), capacity=spec['capacity'], **common), [pool.shutdown]

        return sync_run(mk)
    if name == 'async_fifo_stream':

        def mk():
            loop = asyncio.get_running_loop()

            async def func(x):
                return loop.create_task(af(x))

            return async_fifo_stream(_asource(xs, spec['src_delays']), func, capacity=spec['capacity'], **common), []

        return async_run(mk)
    if name == 'Parmapper':
        return sync_run(lambda: (Stream(xs).parmap(f, executor='thread', concurrency=spec['c'], **common), []))
    if name == 'ParmapperAsync':
        return sync_run(lambda: (Stream(xs).parmap(af, concurrency=spec['c'], **common), []))
    if name == 'AsyncParmapper':
        return async_run(lambda: (AsyncStream(_asource(xs, spec['src_delays'])).parmap(f, executor='thread', concurrency=spec['c'], **common).__aiter__(), []))
    if name == 'AsyncParmapperAsync':
        return async_run(lambda: (AsyncStream(_asource(xs, spec['src_delays'])).parmap(af, concurrency=spec['c'], **common).__aiter__(), []))
    raise ValueError(name)


def run_case(spec):
    names = ['fifo_stream', 'async_fifo_stream'] if spec['family'] == 'fifo' else ['Parmapper', 'ParmapperAsync', 'AsyncParmapper', 'AsyncParmapperAsync']
    exp_outs, exp_term, _ = c01.reference(spec)
    results = {}
    inv_total = 0
    steps = 0
    for name in names:
        log = []
        out = run_sim(_variant(spec, name, log), spec['sched'], horizon=600.0, max_steps=300_000)
        try:
            hang_check(out)
        except Violation as v:
            v.signature = [v.signature, name]
            v.detail = f'[{name}] ' + v.detail
            raise
        if out.exc is not None:
            raise Violation('scenario_exception', f'[{name}] {type(out.exc).__name__}: {out.exc}', signature=['exc', name, type(out.exc).__name__])
        results[name] = out.result
        steps += out.sim.steps
        # completion inversions
        from collections import defaultdict, deque

        open_ = defaultdict(deque)
        sub, comp = [], []
        for i, (k, v) in enumerate(log):
            if k == 'enter':
                open_[repr(v)].append(i)
                sub.append(i)
            else:
                comp.append(open_[repr(v)].popleft())
        inv_total += c01.inversions(sub, comp)
    sync_name = names[0]
    for name in names:
        outs, term = results[name]
        if (outs, term) != (exp_outs, exp_term):
            k = next((i for i, (a, b) in enumerate(zip(outs, exp_outs)) if a != b), min(len(outs), len(exp_outs)))
            kind = 'async_differs_from_sync' if results[sync_name] == (exp_outs, exp_term) else 'differs_from_reference'
            raise Violation(
                kind,
                f'{name}: first difference at position {k}: got {outs[k:k+2]} term={term}; {sync_name}/reference give {exp_outs[k:k+2]} term={exp_term}',
                signature=[kind, name],
            )
    rejected = bool(spec['pre_fails']) and spec['pre'] != 'none'
    return CaseInfo(
        nontrivial=inv_total >= 1 or rejected,
        descriptor=[spec['family'], spec['xs'], spec['fails'], spec['pre'], spec['pre_fails'], spec['rx'], spec['rexc'], spec['c'], spec['capacity'], spec['delays']],
        classes=(spec['family'], 'inv' if inv_total else 'noinv', 'pre_reject' if rejected else 'no_reject', 'failprop' if exp_term != 'end' else 'full'),
        metrics={'inversions': inv_total, 'steps': steps},
        sample={'family': spec['family'], 'xs': spec['xs'][:10], 'pre': spec['pre'], 'pre_fails': spec['pre_fails'], 'rx': spec['rx'], 'rexc': spec['rexc'], 'outs': exp_outs[:5], 'term': exp_term},
    )


def _warm():
    spec = {'xs': [1, 2, 3], 'fails': [], 'exc': 'ValueError', 'pre': 'none', 'pre_fails': [], 'rx': False, 'rexc': True, 'delays': [0.001], 'cons_delays': [0.0], 'capacity': 2, 'c': 2, 'src_delays': [0.0], 'sched': {'kind': 'default'}}
    for fam in ('fifo', 'parmap'):
        for _ in range(2):
            run_case(dict(spec, family=fam))


RULE = (
    'pairs/quadruples run on identical generated inputs (lists <=25 with duplicates), per-value virtual durations, failing values, preprocessor '
    '(identity/extractor, rejections over-weighted at first/middle/last position), return_x, return_exceptions, capacity/concurrency: '
    'fifo_stream vs async_fifo_stream; Parmapper(thread) vs ParmapperAsync vs AsyncParmapper vs AsyncParmapperAsync. Oracle: every variant equals '
    'the sequential reference (hence each other). Non-trivial: >=1 completion-order inversion or >=1 preprocessor rejection; distinct by (family, inputs, config).'
)

FAMILIES = [
    Family('F1_streams', 'sim', spec_strategy(), run_case, quick=1500, thorough=80_000, shards_quick=8, rule=RULE, setup=_warm),
]
