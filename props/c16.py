"""C16 - async variants give the same answers as their sync counterparts."""
import asyncio

from hypothesis import strategies as st

from vf.core import CaseInfo, Family, Violation, hang_check, run_sim, sched_strategy
from vf.detsched import SimAbort

from . import c01
from . import streamlib as sl

ASSUMPTIONS = [
    'asyncio runs on a scheduler-aware SelectorEventLoop (virtual time); within one loop task interleaving follows completion times, '
    'so generated per-value durations enumerate completion orders',
    'both sides are also compared with the sequential reference so that a fault shared by sync and async cannot hide',
]


@st.composite
def spec_strategy(draw):
    spec = draw(c01.base_spec(25))
    # over-weight preprocessor failures at the first / a middle / the last position
    xs = spec['xs']
    if xs and draw(st.integers(0, 2)) == 0:
        spec['pre'] = draw(st.sampled_from(['identity', 'extract']))
        pos = draw(st.sampled_from([0, len(xs) // 2, len(xs) - 1]))
        spec['pre_fails'] = [xs[pos]]
    spec['family'] = draw(st.sampled_from(['fifo', 'parmap', 'parmap']))
    spec['c'] = draw(st.sampled_from([1, 1, 2, 2, 3, 4]))
    spec['capacity'] = draw(st.sampled_from([1, 1, 2, 3, 4, 6]))
    spec['src_delays'] = draw(sl.delays_strategy(3))
    spec['sched'] = draw(sched_strategy(max_len=120, est_steps=1500, depth=3))
    # the submitting function itself may refuse an element (raise instead of returning a future), like AsyncServer._enqueue on a full server
    spec['submit_fails'] = [draw(st.sampled_from(xs))] if xs and spec['family'] == 'fifo' and spec['pre'] != 'extract' and draw(st.integers(0, 3)) == 0 else []
    return spec


def _submit_exc(xx):
    return sl.make_exc('CustomError', 2, 'submit ' + repr(xx))


def reference_fifo(spec):
    """sequential meaning of fifo_stream when the submitting function may raise: that ends the stream (after the earlier results), whatever return_exceptions says"""
    xs = [c01.untuple(v) for v in spec['xs']]
    sf = [c01.untuple(v) for v in spec.get('submit_fails') or []]
    f = c01.make_f(spec['fails'], spec['exc'], [0.0], None, timed=False)
    pre = c01.make_pre(spec['pre'], spec['pre_fails'], spec['exc'])
    outs, term = [], 'end'
    for x in xs:
        try:
            xx = x if pre is None else pre(x)
        except Exception as e:
            if not spec['rexc']:
                term = sl.norm(e)
                break
            outs.append(sl.norm((x, e) if spec['rx'] else e))
            continue
        if xx in sf:
            term = sl.norm(_submit_exc(xx))
            break
        try:
            y = f(xx)
        except Exception as e:
            if not spec['rexc']:
                term = sl.norm(e)
                break
            y = e
        outs.append(sl.norm((x, y) if spec['rx'] else y))
    return outs, term


async def _asource(xs, delays):
    for i, x in enumerate(xs):
        d = delays[i % len(delays)]
        if d > 0:
            await asyncio.sleep(d)
        yield x


def _variant(spec, name, log):
    """returns a zero-arg scenario function producing (outs, term)"""
    from mpservice.concurrent.futures import ThreadPoolExecutor
    from mpservice.streamer import Stream, async_fifo_stream, fifo_stream
    from mpservice.streamer._streamer_async import AsyncStream

    xs = [c01.untuple(v) for v in spec['xs']]
    pre = c01.make_pre(spec['pre'], spec['pre_fails'], spec['exc'])
    kw = {} if pre is None else {'preprocessor': pre}
    f = c01.make_f(spec['fails'], spec['exc'], spec['delays'], log)
    af = c01.make_af(spec['fails'], spec['exc'], spec['delays'], log)
    common = dict(return_x=spec['rx'], return_exceptions=spec['rexc'], **kw)
    sf = [c01.untuple(v) for v in spec.get('submit_fails') or []]

    def sync_run(make_it):
        def scenario():
            it, cleanup = make_it()
            outs, term = sl.consume(iter(it), {'kind': 'all'}, spec['cons_delays'])
            for c in cleanup:
                c()
            return outs, term

        return scenario

    def async_run(make_ait):
        def scenario():
            async def main():
                ait, cleanup = make_ait()
                outs, term = await sl.aconsume(ait, {'kind': 'all'}, spec['cons_delays'])
                for c in cleanup:
                    c()
                return outs, term

            return asyncio.run(main())

        return scenario

    if name == 'fifo_stream':

        def mk():
            pool = ThreadPoolExecutor(spec['c'])

            def submit(x):
                if x in sf:
                    raise _submit_exc(x)
                return pool.submit(f, x, loud_exception=False)

            return fifo_stream(iter(xs), submit, capacity=spec['capacity'], **common), [pool.shutdown]

        return sync_run(mk)
    if name == 'async_fifo_stream':

        def mk():
            loop = asyncio.get_running_loop()

            async def func(x):
                if x in sf:
                    raise _submit_exc(x)
                return loop.create_task(af(x))

            return async_fifo_stream(_asource(xs, spec['src_delays']), func, capacity=spec['capacity'], **common), []

        return async_run(mk)
    if name == 'Parmapper':
        return sync_run(lambda: (Stream(xs).parmap(f, executor='thread', concurrency=spec['c'], **common), []))
    if name == 'ParmapperAsync':
        return sync_run(lambda: (Stream(xs).parmap(af, concurrency=spec['c'], **common), []))
    if name == 'AsyncParmapper':
        return async_run(lambda: (AsyncStream(_asource(xs, spec['src_delays'])).parmap(f, executor='thread', concurrency=spec['c'], **common).__aiter__(), []))
    if name == 'AsyncParmapperAsync':
        return async_run(lambda: (AsyncStream(_asource(xs, spec['src_delays'])).parmap(af, concurrency=spec['c'], **common).__aiter__(), []))
    raise ValueError(name)


def run_case(spec):
    names = ['fifo_stream', 'async_fifo_stream'] if spec['family'] == 'fifo' else ['Parmapper', 'ParmapperAsync', 'AsyncParmapper', 'AsyncParmapperAsync']
    if spec['family'] == 'fifo' and spec.get('submit_fails'):
        exp_outs, exp_term = reference_fifo(spec)
    else:
        exp_outs, exp_term, _ = c01.reference(spec)
    results = {}
    inv_total = 0
    steps = 0
    for name in names:
        log = []
        out = run_sim(_variant(spec, name, log), spec['sched'], horizon=600.0, max_steps=300_000)
        try:
            hang_check(out)
        except Violation as v:
            v.signature = [v.signature, name]
            v.detail = f'[{name}] ' + v.detail
            raise
        if out.exc is not None:
            raise Violation('scenario_exception', f'[{name}] {type(out.exc).__name__}: {out.exc}', signature=['exc', name, type(out.exc).__name__])
        results[name] = out.result
        steps += out.sim.steps
        # completion inversions
        from collections import defaultdict, deque

        open_ = defaultdict(deque)
        sub, comp = [], []
        for i, (k, v) in enumerate(log):
            if k == 'enter':
                open_[repr(v)].append(i)
                sub.append(i)
            else:
                comp.append(open_[repr(v)].popleft())
        inv_total += c01.inversions(sub, comp)
    sync_name = names[0]
    for name in names:
        outs, term = results[name]
        if (outs, term) != (exp_outs, exp_term):
            k = next((i for i, (a, b) in enumerate(zip(outs, exp_outs)) if a != b), min(len(outs), len(exp_outs)))
            kind = 'async_differs_from_sync' if results[sync_name] == (exp_outs, exp_term) else 'differs_from_reference'
            raise Violation(
                kind,
                f'{name}: first difference at position {k}: got {outs[k:k+2]} term={term}; {sync_name}/reference give {exp_outs[k:k+2]} term={exp_term}',
                signature=[kind, name],
            )
    rejected = bool(spec['pre_fails']) and spec['pre'] != 'none'
    return CaseInfo(
        nontrivial=inv_total >= 1 or rejected,
        descriptor=[spec['family'], spec['xs'], spec['fails'], spec['pre'], spec['pre_fails'], spec['rx'], spec['rexc'], spec['c'], spec['capacity'], spec['delays']],
        classes=(spec['family'], 'inv' if inv_total else 'noinv', 'pre_reject' if rejected else 'no_reject', 'failprop' if exp_term != 'end' else 'full'),
        metrics={'inversions': inv_total, 'steps': steps},
        sample={'family': spec['family'], 'xs': spec['xs'][:10], 'pre': spec['pre'], 'pre_fails': spec['pre_fails'], 'rx': spec['rx'], 'rexc': spec['rexc'], 'outs': exp_outs[:5], 'term': exp_term},
    )


def _warm():
    spec = {'xs': [1, 2, 3], 'fails': [], 'exc': 'ValueError', 'pre': 'none', 'pre_fails': [], 'rx': False, 'rexc': True, 'delays': [0.001], 'cons_delays': [0.0], 'capacity': 2, 'c': 2, 'src_delays': [0.0], 'sched': {'kind': 'default'}}
    for fam in ('fifo', 'parmap'):
        for _ in range(2):
            run_case(dict(spec, family=fam))


RULE = (
    'pairs/quadruples run on identical generated inputs (lists <=25 with duplicates), per-value virtual durations, failing values, preprocessor '
    '(identity/extractor, rejections over-weighted at first/middle/last position), return_x, return_exceptions, capacity/concurrency: '
    'fifo_stream vs async_fifo_stream; Parmapper(thread) vs ParmapperAsync vs AsyncParmapper vs AsyncParmapperAsync. Oracle: every variant equals '
    'the sequential reference (hence each other). Non-trivial: >=1 completion-order inversion or >=1 preprocessor rejection; distinct by (family, inputs, config).'
)

# ------------------------------------------------------------------------- Server vs AsyncServer


@st.composite
def server_spec(draw):
    from . import serverlib as sv

    tree = draw(sv.tree_strategy(depth=draw(st.integers(0, 1)), batch=True))
    nreq = draw(st.integers(1, 10))
    reqs = {str(r): draw(sv.plan_strategy(tree, p_fail=0.3, p_delay=0.8)) for r in range(nreq)}
    ncallers = draw(st.integers(1, 4))
    callers = [[] for _ in range(ncallers)]
    stream_rids = []
    for rid in range(nreq):
        o = draw(st.integers(0, ncallers))
        if o < ncallers:
            tsel = draw(st.sampled_from(['long', 'long', 'short']))
            timeout = 'long' if tsel == 'long' else draw(st.sampled_from([0.0005, 0.003, 0.012, 0.05]))
            callers[o].append({'rid': rid, 'timeout': timeout, 'bp': draw(st.booleans()), 'think': draw(st.sampled_from([0, 0, 0.001, 0.01]))})
        else:
            stream_rids.append(rid)
    return {
        'tree': tree,
        'capacity': draw(st.sampled_from([1, 1, 2, 4, 32])),
        'reqs': reqs,
        'callers': [c for c in callers if c],
        'streams': [{'rids': stream_rids, 'abandon': None, 'cons_delay': 0}] if stream_rids else [],
        'sched': draw(sched_strategy(max_len=150, est_steps=3000, depth=3)),
    }


def run_server_pair(spec):
    from . import c02
    from . import serverlib as sv

    tree = spec['tree']
    reqs = {int(k): v for k, v in spec['reqs'].items()}
    sides = {}
    for name, runner in (('Server', sv.run_server), ('AsyncServer', sv.run_async_server)):
        obs = runner(spec)
        try:
            hang_check(obs.out)
        except Violation as v:
            v.detail = f'[{name}] ' + v.detail
            v.signature = [v.signature, name]
            raise
        if obs.enter_exc is not None:
            raise Violation('enter_failed', f'[{name}] {obs.enter_exc!r}', signature=['enter', name])
        if obs.exit_exc is not None:
            raise Violation('exit_raised', f'[{name}] {obs.exit_exc!r}', signature=['exit_raised', name])
        poison = sv.batch_poison_map(tree, reqs, obs.log)
        recs = list(obs.calls)
        for s in obs.streams:
            term = s.get('term')
            if isinstance(term, tuple):
                raise Violation('stream_raised', f'[{name}] stream(return_exceptions=True) raised {type(term[1]).__name__}: {term[1]}', signature=['stream_raised', name, type(term[1]).__name__])
            if len(s['items']) != len(s['spec']['rids']):
                raise Violation('stream_count', f"[{name}] stream of {len(s['spec']['rids'])} inputs gave {len(s['items'])} outputs", signature=['stream_count', name])
            for k, (x, y) in enumerate(s['items']):
                xr = sv.unpack(x)[0]
                if xr != s['spec']['rids'][k]:
                    raise Violation('stream_order', f'[{name}] position {k}: input {xr}', signature=['stream_order', name])
                from mpservice import TimeoutError as MpTimeoutError

                kind = 'timeout' if isinstance(y, MpTimeoutError) else ('exc' if isinstance(y, BaseException) else 'value')
                recs.append({'rid': xr, 'timeout': 'long', 'bp': False, 't0': s['t0'], 't1': s['t1'], 'kind': kind, 'payload': y})
        for rec in recs:
            rec['forced'] = poison.get(rec['rid'])
            bad = c02.judge_call(rec, tree, reqs, spec['capacity'], {'max_backlog': obs.max_backlog})
            if bad:
                raise Violation(('async_' if name == 'AsyncServer' else 'sync_') + bad[0], f'[{name}] ' + bad[1], signature=[bad[0], name])
        sides[name] = {r['rid']: r['kind'] for r in recs}
    kinds = sorted(set(sides['Server'].values()) | set(sides['AsyncServer'].values()))
    waited = any(k in ('backlogfull', 'timeout') for k in kinds)
    return CaseInfo(
        nontrivial=len(reqs) >= 2 and (waited or any(p['f'] or p['pf'] for p in reqs.values())),
        descriptor=['server', tree, spec['capacity'], spec['reqs'], spec['callers'], spec['streams']],
        classes=tuple(['server_pair', 'tree_' + tree['t'], f"cap{min(spec['capacity'], 4)}"] + ['saw_' + k for k in kinds]),
        metrics={},
        sample={'tree': tree, 'capacity': spec['capacity'], 'sync': sides['Server'], 'async': sides['AsyncServer']},
    )


def _warm_server():
    from . import c02

    c02._warm()
    spec = {
        'tree': {'t': 'w', 'tag': 'A', 'n': 2, 'pre': False}, 'capacity': 1,
        'reqs': {'0': {'d': {'A': 0.01}, 'f': {}, 'pf': {}, 'r': 0}, '1': {'d': {}, 'f': {}, 'pf': {}, 'r': 0}},
        'callers': [[{'rid': 0, 'timeout': 'long', 'bp': False, 'think': 0}], [{'rid': 1, 'timeout': 0.003, 'bp': False, 'think': 0}]],
        'streams': [], 'sched': {'kind': 'default'},
    }
    for _ in range(2):
        try:
            run_server_pair(spec)
        except Violation:
            pass


FAMILIES = [
    Family('F1_streams', 'sim', spec_strategy(), run_case, quick=1500, thorough=80_000, shards_quick=8, rule=RULE, setup=_warm),
    Family('F2_servers', 'sim', server_spec(), run_server_pair, quick=1200, thorough=60_000, shards_quick=8,
           rule='Server.call/stream vs AsyncServer.call/stream on identical generated servlet trees, requests (delays, failures), caller scripts (short/long timeouts, backpressure on/off), capacity 1-32: '
           'every outcome on either side must be what the reference evaluator allows (same exception classes incl. ServerBacklogFull vs TimeoutError rules). Non-trivial: >=2 requests and a failure or a wait at a full server.', setup=_warm_server),
]
