"""C14 - proxy calls behave like direct calls on the hosted object (differential against a local twin over generated histories)."""
import threading
import time
from multiprocessing.managers import Namespace

from hypothesis import strategies as st

from vf.core import CaseInfo, Family, Violation

from . import managerlib as ml

ASSUMPTIONS = [
    'real processes: one ServerProcess + one helper client process per shard; every hosted object has a main-thread proxy, is also used from a second thread of the same process and from the helper process',
    'documented normalisation: dict views (keys/values/items) arrive as lists; iterators and __reversed__ cannot be transported and are not generated',
    'exceptions are compared by type and args; the server-side traceback must be present (is_remote_exception) and, for Python-defined hosted methods, name the method',
]

VAL = st.one_of(st.integers(-3, 9), st.text(max_size=3), st.none(), st.tuples(st.integers(0, 2), st.text(max_size=2)), st.booleans())
VALS = st.lists(VAL, max_size=3)
IDX = st.integers(-4, 4)
KEY = st.sampled_from(['a', 'b', 'c', 1, (1, 2)])


@st.composite
def op_strategy(draw, kind):
    if kind == 'list':
        m = draw(st.sampled_from(['append', 'append', 'extend', 'insert', 'pop', 'pop0', 'remove', 'index', 'count', 'reverse', 'sort', '__getitem__', '__setitem__', '__delitem__', '__len__', '__contains__', '__mul__', '__imul__', '__iadd__', '__add__']))
        args = {
            'append': lambda: [draw(VAL)], 'extend': lambda: [draw(VALS)], 'insert': lambda: [draw(IDX), draw(VAL)], 'pop': lambda: [draw(IDX)], 'pop0': lambda: [],
            'remove': lambda: [draw(VAL)], 'index': lambda: [draw(VAL)], 'count': lambda: [draw(VAL)], 'reverse': lambda: [], 'sort': lambda: [],
            '__getitem__': lambda: [draw(IDX)], '__setitem__': lambda: [draw(IDX), draw(VAL)], '__delitem__': lambda: [draw(IDX)], '__len__': lambda: [], '__contains__': lambda: [draw(VAL)],
            '__mul__': lambda: [draw(st.integers(0, 2))], '__imul__': lambda: [draw(st.integers(0, 2))], '__iadd__': lambda: [draw(VALS)], '__add__': lambda: [draw(VALS)],
        }[m]()
    elif kind == 'dict':
        m = draw(st.sampled_from(['__setitem__', '__setitem__', '__getitem__', '__delitem__', 'get', 'pop', 'popitem', 'setdefault', 'update', 'keys', 'values', 'items', 'clear', 'copy', '__len__', '__contains__']))
        args = {
            '__setitem__': lambda: [draw(KEY), draw(VAL)], '__getitem__': lambda: [draw(KEY)], '__delitem__': lambda: [draw(KEY)], 'get': lambda: [draw(KEY), draw(VAL)], 'pop': lambda: [draw(KEY)],
            'popitem': lambda: [], 'setdefault': lambda: [draw(KEY), draw(VAL)], 'update': lambda: [{draw(st.sampled_from(['a', 'z'])): draw(VAL)}], 'keys': lambda: [], 'values': lambda: [], 'items': lambda: [],
            'clear': lambda: [], 'copy': lambda: [], '__len__': lambda: [], '__contains__': lambda: [draw(KEY)],
        }[m]()
    elif kind == 'Value':
        m = draw(st.sampled_from(['get', 'set', 'value_get', 'value_set']))
        args = [draw(st.integers(-9, 9))] if m in ('set', 'value_set') else []
    elif kind == 'Namespace':
        m = draw(st.sampled_from(['setattr', 'setattr', 'getattr', 'delattr']))
        name = draw(st.sampled_from(['x', 'y', 'zed']))
        args = [name, draw(VAL)] if m == 'setattr' else [name]
    else:  # VCounter
        m = draw(st.sampled_from(['add', 'add', 'get', 'fail', 'echo', 'add_bad', 'managed', 'shared']))
        args = {'add': lambda: [draw(st.integers(-3, 3))], 'get': lambda: [], 'fail': lambda: [draw(st.sampled_from(['value', 'key', 'index', 'custom', 'attr', 'zero', 'eof', 'timeout', 'stopiter', 'oserror', 'unpicklable'])), draw(VAL)], 'echo': lambda: [draw(VAL)],
                'add_bad': lambda: [draw(st.text(max_size=2))], 'managed': lambda: [draw(VALS), draw(VAL)], 'shared': lambda: [draw(VAL)]}[m]()
    return [m, args]


@st.composite
def history(draw):
    kinds = draw(st.lists(st.sampled_from(['list', 'list', 'dict', 'dict', 'Value', 'Namespace', 'VCounter', 'VCounter']), min_size=1, max_size=4))
    n = draw(st.integers(5, 40))
    ops = []
    for _ in range(n):
        o = draw(st.integers(0, len(kinds) - 1))
        m, args = draw(op_strategy(kinds[o]))
        ops.append([o, draw(st.sampled_from(['main', 'main', 'thread', 'helper'])), m, args])
        if draw(st.integers(0, 14)) == 0:
            # the main process drops every proxy it holds (the helper keeps its own) and later gets them back from the helper
            ops.append([0, 'main', 'REBIND', []])
    return {'kinds': kinds, 'ops': ops}


def _tup(x):
    """JSON round trips turn tuples into lists: generated args are re-tupled where the strategies produce tuples"""
    if isinstance(x, list) and len(x) == 2 and isinstance(x[0], int) and not isinstance(x[0], bool) and isinstance(x[1], (str, int)) and not isinstance(x[1], bool):
        return tuple(x)
    return x


def fix_args(kind, m, args):
    out = []
    for a in args:
        if isinstance(a, list) and not (kind == 'list' and m in ('extend', '__iadd__', '__add__')) and not (kind == 'VCounter' and m in ('managed', 'shared')):
            out.append(_tup(a))
        elif isinstance(a, list):
            out.append([_tup(v) for v in a])
        elif isinstance(a, dict):
            out.append({k: _tup(v) for k, v in a.items()})
        else:
            out.append(a)
    return out


def apply_local(kind, twin, m, args):
    """returns ('value', v) | ('raised', type name, args)"""
    try:
        if kind == 'list':
            if m == 'pop0':
                return ('value', twin.pop())
            if m == '__imul__':
                twin *= args[0]
                return ('value', None)
            if m == '__iadd__':
                twin += args[0]
                return ('value', None)
            return ('value', getattr(twin, m)(*args))
        if kind == 'dict':
            r = getattr(twin, m)(*args)
            if m in ('keys', 'values', 'items'):
                r = list(r)
            return ('value', r)
        if kind == 'Value':
            if m in ('get', 'value_get'):
                return ('value', twin['v'])
            twin['v'] = args[0]
            return ('value', None)
        if kind == 'Namespace':
            if m == 'setattr':
                setattr(twin, args[0], args[1])
                return ('value', None)
            if m == 'getattr':
                return ('value', getattr(twin, args[0]))
            delattr(twin, args[0])
            return ('value', None)
        if m == 'add_bad':
            return ('value', twin.add(*args))
        if m == 'managed':
            lst = list(args[0])
            lst.append(args[1])
            return ('value', lst)
        if m == 'shared':
            if not hasattr(twin, '_shared'):
                twin._shared = ['shared']
            twin._shared.append(args[0])
            return ('value', list(twin._shared))
        return ('value', getattr(twin, m)(*args))
    except Exception as e:
        return ('raised', type(e).__name__, e.args)


def apply_proxy(kind, p, m, args):
    from mpservice.multiprocessing.remote_exception import get_remote_traceback, is_remote_exception

    try:
        if kind == 'list':
            if m == 'pop0':
                return ('value', p.pop())
            if m == '__imul__':
                q = p
                q *= args[0]
                return ('value', None if q is p else 'REBOUND')
            if m == '__iadd__':
                q = p
                q += args[0]
                return ('value', None if q is p else 'REBOUND')
            return ('value', getattr(p, m)(*args))
        if kind == 'dict':
            return ('value', getattr(p, m)(*args))
        if kind == 'Value':
            if m == 'get':
                return ('value', p.get())
            if m == 'value_get':
                return ('value', p.value)
            if m == 'set':
                return ('value', p.set(args[0]))
            p.value = args[0]
            return ('value', None)
        if kind == 'Namespace':
            if m == 'setattr':
                setattr(p, args[0], args[1])
                return ('value', None)
            if m == 'getattr':
                return ('value', getattr(p, args[0]))
            delattr(p, args[0])
            return ('value', None)
        if m == 'add_bad':
            return ('value', p.add(*args))
        if m == 'shared':
            # the same retained server-side value wrapped twice: both proxies are live, and dropping one leaves the other usable
            q1 = p.shared_list()
            q2 = p.shared_list()
            if not hasattr(q1, '_callmethod') or not hasattr(q2, '_callmethod'):
                return ('value', ('NOT-A-PROXY', q1, q2))
            del q1
            q2.append(args[0])
            return ('value', q2[:])
        if m == 'managed':
            q = p.make_managed_list(args[0])
            if not hasattr(q, '_callmethod'):
                return ('value', ('NOT-A-PROXY', q))
            q.append(args[1])  # mutate through the returned proxy: must reach the hosted value, not a copy
            back = q[:]
            return ('value', back)
        return ('value', getattr(p, m)(*args))
    except Exception as e:
        return ('raised', type(e).__name__, e.args, is_remote_exception(e) and get_remote_traceback(e))


def helper_apply(r, slot, kind, m, args):
    """the same through the helper process (generic getattr call; special forms mapped to plain method calls)"""
    if kind == 'list' and m == 'pop0':
        m, args = 'pop', []
    if kind == 'Value':
        m = {'value_get': 'get', 'value_set': 'set'}.get(m, m)
    if kind == 'Namespace':
        m = {'setattr': '__setattr__', 'getattr': '__getattr__', 'delattr': '__delattr__'}[m]
    if kind == 'VCounter' and m == 'add_bad':
        m = 'add'
    res = r.ask('call', slot, m, list(args))
    return res


def snapshot(kind, p):
    if kind == 'list':
        return p[:]
    if kind == 'dict':
        return p.copy()
    if kind == 'Value':
        return p.get()
    if kind == 'Namespace':
        out = {}
        for n in ('x', 'y', 'zed'):
            try:
                out[n] = getattr(p, n)
            except AttributeError:
                pass
        return out
    return p.get()


def twin_snapshot(kind, twin):
    if kind == 'list':
        return list(twin)
    if kind == 'dict':
        return dict(twin)
    if kind == 'Value':
        return twin['v']
    if kind == 'Namespace':
        return {n: getattr(twin, n) for n in ('x', 'y', 'zed') if hasattr(twin, n)}
    return twin.get()


_RIG = {}


def rig():
    if 'rig' not in _RIG:
        _RIG['rig'] = ml.Rig()
    return _RIG['rig']


def _teardown():
    r = _RIG.pop('rig', None)
    if r is not None:
        r.close()


def run_case(spec):
    from vf.realproc import run_with_watchdog

    try:
        return run_with_watchdog(lambda: _run(spec), budget_s=90, what='manager call history', hang_retries=0, hang_is_violation=False)
    except BaseException:
        _teardown()
        raise


def _run(spec):
    r = rig()
    mgr = r.manager
    objs = []
    try:
        for i, kind in enumerate(spec['kinds']):
            if kind == 'list':
                p, twin = mgr.list(), []
            elif kind == 'dict':
                p, twin = mgr.dict(), {}
            elif kind == 'Value':
                p, twin = mgr.Value('i', 0), {'v': 0}
            elif kind == 'Namespace':
                p, twin = mgr.Namespace(), Namespace()
            else:
                p, twin = mgr.VCounter(0), ml.Counter(0)
            r.ask('hold', 1000 + i, p)
            objs.append({'kind': kind, 'p': p, 'twin': twin, 'slot': 1000 + i})
            del p  # the dict entry is the only main-process reference (REBIND must really drop the last proxy)
    except Violation:
        raise
    except Exception as e:
        raise Violation('create_failed', f"creating a hosted {kind} failed: {type(e).__name__}: {str(e)[:300]}", signature=['create_failed', kind, type(e).__name__])
    raised_then_ok = 0
    rebinds = 0
    last_raised = {}
    used = set()
    try:
        for step, (o, where, m, args) in enumerate(spec['ops']):
            if m == 'REBIND':
                import gc

                for ob2 in objs:
                    ob2['p'] = None
                gc.collect()
                for ob2 in objs:
                    ob2['p'] = r.ask('send_back', ob2['slot'])
                rebinds += 1
                continue
            ob = objs[o]
            kind = ob['kind']
            args = fix_args(kind, m, args)
            import copy

            exp = apply_local(kind, ob['twin'], m, copy.deepcopy(args))
            if kind == 'list' and m in ('__imul__', '__iadd__') and exp[0] == 'value':
                pass
            unpicklable = kind == 'VCounter' and m == 'fail' and args and args[0] == 'unpicklable'
            if where == 'helper' and not unpicklable and not (kind == 'VCounter' and m in ('managed', 'shared')) and not (kind == 'list' and m in ('__imul__', '__iadd__')):
                got = helper_apply(r, ob['slot'], kind, m, args)
            elif where == 'thread':
                box = {}
                t = threading.Thread(target=lambda: box.setdefault('r', apply_proxy(kind, ob['p'], m, args)))
                t.start()
                t.join(60)
                got = box.get('r', ('raised', 'HANG', ()))
            else:
                got = apply_proxy(kind, ob['p'], m, args)
            used.add((o, where))
            desc = f'step {step}: {kind}.{m}{tuple(args)} via {where}'
            if unpicklable:
                # the exception cannot be sent as it is: the caller must still get an error (of whatever kind), and the connection of
                # this thread must stay usable (checked by the state comparison right below, which goes through the same connection)
                if got[0] != 'raised':
                    raise Violation('missing_exception', f'{desc}: direct call raises, proxy call returned {got[1]!r}', signature=['missing_exception', kind, m])
                try:
                    if where == 'thread':
                        box2 = {}
                        t2 = threading.Thread(target=lambda: box2.setdefault('r', apply_proxy(kind, ob['p'], 'get', [])))
                        t2.start()
                        t2.join(60)
                        again = box2.get('r', ('raised', 'HANG', ()))
                    else:
                        again = apply_proxy(kind, ob['p'], 'get', [])
                except BaseException as e:
                    again = ('raised', type(e).__name__, e.args)
                if again[0] != 'value':
                    raise Violation('connection_unusable_after_error', f'{desc} raised {got[1]}; the next call through the same proxy raised {again[1]}{again[2]}', signature=['connection_unusable_after_error'])
            elif exp[0] == 'value':
                if got[0] != 'value':
                    raise Violation('unexpected_exception', f'{desc}: direct call returns {exp[1]!r}, proxy call raised {got[1]}{got[2]}', signature=['unexpected_exception', kind, m])
                if got[1] != exp[1] or type(got[1]) is not type(exp[1]):
                    raise Violation('wrong_return', f'{desc}: direct call returns {exp[1]!r}, proxy call returned {got[1]!r}', signature=['wrong_return', kind, m])
                if last_raised.get((o, where)):
                    raised_then_ok += 1
                    last_raised[(o, where)] = False
            else:
                if got[0] != 'raised':
                    raise Violation('missing_exception', f'{desc}: direct call raises {exp[1]}{exp[2]}, proxy call returned {got[1]!r}', signature=['missing_exception', kind, m])
                if got[1] != exp[1] or tuple(got[2]) != tuple(exp[2]):
                    raise Violation('wrong_exception', f'{desc}: direct call raises {exp[1]}{exp[2]}, proxy call raised {got[1]}{tuple(got[2])}', signature=['wrong_exception', kind, m, got[1]])
                tb = got[3] if len(got) > 3 else None
                if not tb:
                    raise Violation('no_server_traceback', f'{desc}: the exception arrived without the server-side traceback', signature=['no_server_traceback', kind, m])
                if kind == 'VCounter' and m in ('fail', 'add', 'add_bad') and ('in fail' not in tb and 'in add' not in tb):
                    raise Violation('traceback_wrong', f'{desc}: server-side traceback does not name the hosted method: {tb[-300:]}', signature=['traceback_wrong', m])
                last_raised[(o, where)] = True
            # state through every proxy of the object equals the twin
            want = twin_snapshot(kind, ob['twin'])
            have_main = snapshot(kind, ob['p'])
            if have_main != want:
                raise Violation('state_diverged', f'after {desc}: hosted state seen through the main proxy {have_main!r}, twin {want!r}', signature=['state_diverged', kind, m])
            if step % 4 == 3:
                hm = {'list': ('__getitem__', [slice(None)]), 'dict': ('copy', []), 'Value': ('get', []), 'VCounter': ('get', [])}.get(kind)
                if hm:
                    hv = r.ask('call', ob['slot'], hm[0], hm[1])
                    if hv[0] != 'value' or hv[1] != want:
                        raise Violation('state_diverged', f'after {desc}: hosted state seen from the helper process {hv!r}, twin {want!r}', signature=['state_diverged', kind, 'helper'])
    finally:
        for ob in objs:
            try:
                r.ask('drop', ob['slot'])
            except Exception:
                pass
        objs.clear()
    multi = len({w for (_, w) in used}) >= 2
    return CaseInfo(
        nontrivial=raised_then_ok >= 1 and multi,
        descriptor=[spec['kinds'], spec['ops']],
        classes=tuple(sorted(set(spec['kinds']))) + ('raise_then_ok' if raised_then_ok else 'no_raise_then_ok', 'multi_proxy' if multi else 'single_proxy', 'rebound' if rebinds else 'no_rebind'),
        metrics={'ops': len(spec['ops']), 'raise_then_ok': raised_then_ok},
        sample={'kinds': spec['kinds'], 'ops': [(o, w, m) for o, w, m, a in spec['ops']][:25]},
    )


RULE = (
    '1-4 hosted objects (list, dict, Value, Namespace, registered class with raising methods and a method returning managed_list) each with proxies in the main thread, a second thread and a helper process; '
    'histories of 5-40 exposed-method calls with generated picklable arguments incl. calls that raise (IndexError, KeyError, ValueError, TypeError, AttributeError, custom). '
    'Oracle: same return value (type and value; dict views as lists) / same exception type and args as the local twin, server-side traceback present (naming the hosted method for Python-defined methods), '
    'managed_list return is a live proxy (mutation through it is visible), hosted state through the main proxy equals the twin after every step and through the helper every 4th. '
    'Non-trivial: a raising call followed by a successful one on the same connection and >=2 proxy locations used; distinct by history.'
)

FAMILIES = [
    Family('F1_call_histories', 'real', history(), run_case, quick=160, thorough=8000, shards_quick=12, shards_thorough=16, rule=RULE, shrink=False, teardown=_teardown, retries=5),
]
