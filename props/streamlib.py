"""Shared pieces for the stream properties (C01 C05 C08): generated pipeline specs, builders for the real
mpservice Stream and an independent sequential reference interpreter.

Elements are unique ints; every functional stage is the identity on the element's *key* plus generated
virtual delays and value-keyed failures, so that order / exactly-once / pairing are all visible and a
sequential reference can compute the expected transcript.
"""
import time

from hypothesis import strategies as st

from vf.detsched import SimAbort

# the last three are types the library itself catches around its own queue/future operations: a user failure of such a type
# must still be treated as the user's failure
EXC_NAMES = ['ValueError', 'KeyError', 'CustomError', 'CustomError2', 'OSError', 'TimeoutError', 'QueueEmpty', 'QueueFull']


from .workers import CustomError, CustomError2  # noqa: E402,F401


def make_exc(name, key, site):
    if name == 'ValueError':
        return ValueError(site, key)
    if name == 'KeyError':
        return KeyError((site, key))
    if name == 'CustomError':
        return CustomError(site, key)
    if name == 'CustomError2':
        return CustomError2(site, key)
    if name == 'OSError':
        return OSError(site, key)
    if name == 'TimeoutError':
        return TimeoutError(site, key)
    if name == 'QueueEmpty':
        import queue

        return queue.Empty(site, key)
    if name == 'QueueFull':
        import queue

        return queue.Full(site, key)
    if name == 'StopRequested':
        from mpservice._common import StopRequested

        return StopRequested(site, key)
    raise ValueError(name)


def key_of(x):
    """the source int an element descends from"""
    while True:
        if isinstance(x, int):
            return x
        if isinstance(x, BaseException):
            a = x.args
            while a and not isinstance(a[-1], int):
                a = a[-1] if isinstance(a[-1], tuple) else ()
            return a[-1] if a else -1
        if isinstance(x, (tuple, list)):
            x = x[0]
            continue
        return -1


DELAYS = [0.0, 0.0, 0.001, 0.004, 0.01, 0.05]


def delays_strategy(max_len=5):
    # mostly short delays; now and then one stall beyond the one-second scale (polling intervals and internal timeouts of the
    # code under test are 0.01-1 s: a party that stalls longer than that is a class of its own, and a stall of exactly 1 s makes an
    # expiry coincide with an arrival in virtual time, which is where the schedule decides who goes first)
    return st.lists(st.sampled_from(DELAYS * 3 + [1.0, 1.3]), min_size=1, max_size=max_len)


def _sleep(d):
    if d > 0:
        time.sleep(d)


class Source:
    """instrumented iterable: counts pulls, optional per-element delay, optional failure at a position"""

    def __init__(self, n, fail=None, delays=(0.0,), unbounded=False):
        self.n = n
        self.fail = fail  # None | {'at': k, 'exc': name}
        self.delays = delays
        self.pulled = 0  # elements successfully produced
        self.iters = 0
        self.nexts = 0
        self.unbounded = unbounded
        self.closed = 0

    def __iter__(self):
        self.iters += 1
        return self._gen()

    def _gen(self):
        i = 0
        try:
            while self.unbounded or i < self.n:
                self.nexts += 1
                _sleep(self.delays[i % len(self.delays)])
                if self.fail is not None and self.fail['at'] == i:
                    raise make_exc(self.fail['exc'], i, 'source')
                self.pulled += 1
                yield i
                i += 1
            if self.fail is not None and self.fail['at'] >= self.n and not self.unbounded:
                # failure after the last element
                raise make_exc(self.fail['exc'], self.n, 'source')
        finally:
            self.closed += 1


def stage_fn(stage, idx, log=None, timed=True):
    """sync worker function of a functional stage; pure function of the element key"""
    fails = set(stage.get('fail', ()))
    exc = stage.get('exc', 'ValueError')
    delays = stage.get('delays', [0.0])
    site = f"{stage['op']}{idx}"

    def f(x):
        k = key_of(x)
        if log is not None:
            log.append(('enter', idx, k))
        try:
            if timed:
                _sleep(delays[k % len(delays)])
            if k in fails:
                raise make_exc(exc, k, site)
            return x
        finally:
            if log is not None:
                log.append(('exit', idx, k))

    f.__name__ = f'stagefn_{site}'
    return f


def stage_afn(stage, idx, log=None):
    import asyncio

    fails = set(stage.get('fail', ()))
    exc = stage.get('exc', 'ValueError')
    delays = stage.get('delays', [0.0])
    site = f"{stage['op']}{idx}"

    async def f(x):
        k = key_of(x)
        if log is not None:
            log.append(('enter', idx, k))
        try:
            d = delays[k % len(delays)]
            if d > 0:
                await asyncio.sleep(d)
            if k in fails:
                raise make_exc(exc, k, site)
            return x
        finally:
            if log is not None:
                log.append(('exit', idx, k))

    return f


def pre_fn(stage, idx):
    pf = set(stage.get('pre_fail', ()))
    if not stage.get('pre') and not pf:
        return None
    exc = stage.get('exc', 'ValueError')

    def pre(x):
        k = key_of(x)
        if k in pf:
            raise make_exc(exc, k, f'pre{idx}')
        return x

    return pre


def build_stream(spec, src, log=None):
    from mpservice.streamer import Stream

    s = Stream(src)
    for idx, stg in enumerate(spec['stages']):
        op = stg['op']
        if op == 'map':
            s.map(stage_fn(stg, idx, log))
        elif op == 'filter':
            m = stg['mod']
            f = stage_fn(stg, idx, log)
            s.filter(lambda x, f=f, m=m: (f(x), key_of(x) % m != 0)[1])
        elif op == 'buffer':
            s.buffer(stg['maxsize'])
        elif op == 'parmap':
            kw = {}
            p = pre_fn(stg, idx)
            if p is not None:
                kw['preprocessor'] = p
            s.parmap(
                stage_fn(stg, idx, log),
                executor='thread',
                concurrency=stg['c'],
                return_x=stg.get('rx', False),
                return_exceptions=stg.get('rexc', False),
                **kw,
            )
        elif op == 'parmap_async':
            kw = {}
            p = pre_fn(stg, idx)
            if p is not None:
                kw['preprocessor'] = p
            s.parmap(
                stage_afn(stg, idx, log),
                concurrency=stg['c'],
                return_x=stg.get('rx', False),
                return_exceptions=stg.get('rexc', False),
                **kw,
            )
        elif op == 'fifo':
            s = Stream(FifoStage(s, stage_fn(stg, idx, log), stg['capacity'], stg.get('pool', 2), stg.get('rx', False), stg.get('rexc', False), pre_fn(stg, idx)))
        elif op == 'batch':
            s.batch(stg['n'])
        elif op == 'unbatch':
            s.unbatch()
        elif op == 'head':
            s.head(stg['n'])
        else:
            raise ValueError(op)
    return s


class FifoStage:
    """a bare fifo_stream over its own thread pool, usable as a Stream source (capacity 1 is reachable only this way)"""

    def __init__(self, prev, fn, capacity, pool, rx, rexc, pre):
        self.prev, self.fn, self.capacity, self.pool, self.rx, self.rexc, self.pre = prev, fn, capacity, pool, rx, rexc, pre

    def __iter__(self):
        from mpservice.concurrent.futures import ThreadPoolExecutor
        from mpservice.streamer import fifo_stream

        with ThreadPoolExecutor(self.pool) as pool:
            fn = self.fn
            kw = {} if self.pre is None else {'preprocessor': self.pre}
            yield from fifo_stream(self.prev, lambda x: pool.submit(fn, x, loud_exception=False), capacity=self.capacity, return_x=self.rx, return_exceptions=self.rexc, **kw)


# ----------------------------------------------------------------- reference (sequential meaning)


def ref_iter(spec):
    """independent lazy reference: plain generators, buffer = identity, parmap = map"""

    def source():
        n = spec['n']
        fail = spec.get('src_fail')
        i = 0
        while spec.get('unbounded') or i < n:
            if fail is not None and fail['at'] == i:
                raise make_exc(fail['exc'], i, 'source')
            yield i
            i += 1
        if fail is not None and fail['at'] >= n and not spec.get('unbounded'):
            raise make_exc(fail['exc'], n, 'source')

    it = source()
    for idx, stg in enumerate(spec['stages']):
        it = _ref_stage(it, stg, idx)
    return it


def _ref_stage(it, stg, idx):
    op = stg['op']
    if op == 'buffer':
        yield from it
    elif op == 'map':
        f = stage_fn(stg, idx, None, timed=False)
        for x in it:
            yield f(x)
    elif op == 'filter':
        f = stage_fn(stg, idx, None, timed=False)
        for x in it:
            f(x)
            if key_of(x) % stg['mod'] != 0:
                yield x
    elif op in ('parmap', 'parmap_async', 'fifo'):
        f = stage_fn(stg, idx, None, timed=False)
        p = pre_fn(stg, idx)
        for x in it:
            try:
                xx = x if p is None else p(x)
                y = f(xx)
            except Exception as e:
                if stg.get('rexc', False):
                    y = e
                else:
                    raise
            yield (x, y) if stg.get('rx', False) else y
    elif op == 'batch':
        b = []
        for x in it:
            b.append(x)
            if len(b) == stg['n']:
                yield b
                b = []
        if b:
            yield b
    elif op == 'unbatch':
        for x in it:
            yield from x
    elif op == 'head':
        k = 0
        for x in it:
            if k >= stg['n']:
                break
            yield x
            k += 1
    else:
        raise ValueError(op)


def norm(x):
    """comparable normal form of an output element (exceptions by type+args)"""
    if isinstance(x, BaseException):
        return ('EXC', type(x).__name__, norm(list(x.args)))
    if isinstance(x, (list, tuple)):
        return [norm(v) for v in x]
    return x


def consume(it, cons, delays=(0.0,)):
    """Run the generated consumer over iterator `it`; returns (outputs, terminal).
    terminal: 'end' | 'stopped' | ['EXC', type, args] | ['CLOSE-EXC', ...]"""
    outs = []
    kind = cons['kind']
    at = cons.get('at', 0)
    terminal = 'end'
    try:
        if kind != 'all' and at == 0:
            terminal = 'stopped'
        else:
            for x in it:
                outs.append(norm(x))
                _sleep(delays[(len(outs) - 1) % len(delays)])
                if kind != 'all' and len(outs) >= at:
                    terminal = 'stopped'
                    break
    except SimAbort:
        raise
    except BaseException as e:
        terminal = norm(e)
    return outs, terminal


# ----------------------------------------------------------------- async counterparts


class ASource:
    """async instrumented source"""

    def __init__(self, n, fail=None, delays=(0.0,)):
        self.n = n
        self.fail = fail
        self.delays = delays
        self.pulled = 0

    def __aiter__(self):
        return self._gen()

    async def _gen(self):
        import asyncio

        for i in range(self.n):
            d = self.delays[i % len(self.delays)]
            if d > 0:
                await asyncio.sleep(d)
            if self.fail is not None and self.fail['at'] == i:
                raise make_exc(self.fail['exc'], i, 'source')
            self.pulled += 1
            yield i
        if self.fail is not None and self.fail['at'] >= self.n:
            raise make_exc(self.fail['exc'], self.n, 'source')


def build_astream(spec, src, log=None):
    from mpservice.streamer._streamer_async import AsyncStream

    s = AsyncStream(src)
    for idx, stg in enumerate(spec['stages']):
        op = stg['op']
        if op == 'map':
            s.map(stage_fn(stg, idx, log, timed=False))
        elif op == 'filter':
            m = stg['mod']
            f = stage_fn(stg, idx, log, timed=False)
            s.filter(lambda x, f=f, m=m: (f(x), key_of(x) % m != 0)[1])
        elif op == 'buffer':
            s.buffer(stg['maxsize'])
        elif op in ('parmap', 'parmap_async'):
            kw = {}
            p = pre_fn(stg, idx)
            if p is not None:
                kw['preprocessor'] = p
            if op == 'parmap':
                kw['executor'] = 'thread'
                fn = stage_fn(stg, idx, log)
            else:
                fn = stage_afn(stg, idx, log)
            s.parmap(fn, concurrency=stg['c'], return_x=stg.get('rx', False), return_exceptions=stg.get('rexc', False), **kw)
        elif op == 'batch':
            s.batch(stg['n'])
        elif op == 'unbatch':
            s.unbatch()
        elif op == 'head':
            s.head(stg['n'])
        else:
            raise ValueError(op)
    return s


async def aconsume(ait, cons, delays=(0.0,)):
    import asyncio

    outs = []
    kind = cons['kind']
    at = cons.get('at', 0)
    terminal = 'end'
    try:
        if kind != 'all' and at == 0:
            terminal = 'stopped'
        else:
            async for x in ait:
                outs.append(norm(x))
                d = delays[(len(outs) - 1) % len(delays)]
                if d > 0:
                    await asyncio.sleep(d)
                if kind != 'all' and len(outs) >= at:
                    terminal = 'stopped'
                    break
    except SimAbort:
        raise
    except BaseException as e:
        terminal = norm(e)
    return outs, terminal
