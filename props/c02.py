"""C02 - every request gets exactly one outcome, computed only from its own input (no cross-talk)."""
from hypothesis import strategies as st

from vf.alloc import Alloc
from vf.core import CaseInfo, Family, Violation, hang_check, sched_strategy

from . import serverlib as sv

ASSUMPTIONS = [
    'thread servlets under the deterministic scheduler; ProcessServlet is not simulated (sampled separately where built)',
    'exception instances and None are never user inputs to a server (documented internal signals)',
    'TimeoutError is legal only for generated short timeouts and only at/after the deadline; ServerBacklogFull only when the server was full '
    '(at once under backpressure, after 0.99*timeout without); requests with unbounded timeout must be answered',
    'object identity allocator: if the server mints ids with id(), a generated legal-but-adversarial allocator (recycles ids of freed objects) is substituted',
]


@st.composite
def spec_strategy(draw, max_depth=2):
    tree = draw(sv.tree_strategy(depth=draw(st.integers(0, max_depth))))
    nreq = draw(st.integers(1, 16))
    reqs = {}
    for rid in range(nreq):
        reqs[str(rid)] = draw(sv.plan_strategy(tree))
    rids = list(range(nreq))
    ncallers = draw(st.integers(1, 5))
    # distribute requests over callers and streams
    owners = draw(st.lists(st.integers(0, ncallers + 1), min_size=nreq, max_size=nreq))
    callers = [[] for _ in range(ncallers)]
    stream_rids = [[], []]
    for rid, o in zip(rids, owners):
        if o < ncallers:
            tsel = draw(st.sampled_from(['long', 'long', 'long', 'short']))
            timeout = 'long' if tsel == 'long' else draw(st.sampled_from([0.0005, 0.003, 0.012, 0.05, 0.15]))
            callers[o].append({'rid': rid, 'timeout': timeout, 'bp': draw(st.booleans()), 'think': draw(st.sampled_from([0, 0, 0.001, 0.01, 0.05]))})
        else:
            stream_rids[o - ncallers].append(rid)
    streams = []
    for sr in stream_rids:
        if sr:
            ab = draw(st.one_of(st.none(), st.none(), st.integers(0, len(sr))))
            streams.append({'rids': sr, 'abandon': ab, 'cons_delay': draw(st.sampled_from([0, 0, 0.01]))})
    spec = {
        'tree': tree,
        'capacity': draw(st.sampled_from([1, 2, 3, 4, 8, 32])),
        'reqs': reqs,
        'callers': [c for c in callers if c],
        'streams': streams,
        'alloc_bits': draw(st.lists(st.integers(0, 1), max_size=12)),
        'sched': draw(sched_strategy(max_len=200, est_steps=4000, depth=4)),
    }
    return spec


@st.composite
def ens_recycle_spec(draw):
    """fail-fast ensembles with a slow member, callers issuing requests back to back so that futures are freed and their identities can be
    recycled while the slow member still works on the previous holder"""
    k = draw(st.integers(2, 3))
    members = [{'t': 'w', 'tag': chr(ord('A') + i), 'n': draw(st.sampled_from([1, 1, 2])), 'pre': False} for i in range(k)]
    tree = {'t': 'ens', 'ff': draw(st.sampled_from([True, True, False])), 'ch': members}
    if draw(st.integers(0, 2)) == 0:
        tree = {'t': 'seq', 'ch': [tree, {'t': 'w', 'tag': 'Z', 'n': 1, 'pre': False}]}
    nreq = draw(st.integers(2, 12))
    reqs = {}
    tags = [m['tag'] for m in members]
    for rid in range(nreq):
        plan = {'d': {}, 'f': {}, 'pf': {}, 'r': 0}
        slow = draw(st.sampled_from(tags))
        plan['d'][slow] = draw(st.sampled_from([0.005, 0.02, 0.05]))
        if draw(st.integers(0, 1)) == 0:
            failing = draw(st.sampled_from([t for t in tags if t != slow] or tags))
            plan['f'][failing] = draw(st.sampled_from(sv.EXC_NAMES))
        reqs[str(rid)] = plan
    ncallers = draw(st.integers(1, 3))
    callers = [[] for _ in range(ncallers)]
    for rid in range(nreq):
        tsel = draw(st.sampled_from(['long', 'long', 'short']))
        timeout = 'long' if tsel == 'long' else draw(st.sampled_from([0.001, 0.004, 0.01]))
        callers[draw(st.integers(0, ncallers - 1))].append({'rid': rid, 'timeout': timeout, 'bp': False, 'think': draw(st.sampled_from([0, 0, 0, 0.001, 0.01]))})
    return {
        'tree': tree,
        'capacity': 32,
        'reqs': reqs,
        'callers': [c for c in callers if c],
        'streams': [],
        'alloc_bits': draw(st.lists(st.sampled_from([1, 1, 1, 0]), min_size=4, max_size=12)),
        'sched': draw(sched_strategy(max_len=200, est_steps=3000, depth=4)),
    }


def judge_call(rec, tree, reqs, capacity, prop_clauses):
    """returns None or (clause, detail)"""
    rid = rec['rid']
    exp = sv.expected(tree, rid, reqs[rid], rec.get('forced'))
    kind = rec['kind']
    if kind == 'timeout':
        if rec['timeout'] == 'long':
            return ('unanswered', f'request {rid} with unbounded timeout raised TimeoutError after {rec["t1"] - rec["t0"]:.1f}s virtual: {rec["payload"]}')
        if rec['t1'] - rec['t0'] < rec['timeout'] - 1e-9:
            return ('early_timeout', f'request {rid} raised TimeoutError after {rec["t1"] - rec["t0"]:.4f}s < timeout {rec["timeout"]}')
        return None
    if kind == 'backlogfull':
        e = rec['payload']
        n, waited = e.args
        # the count in the message is read after the check and may legitimately be lower by then; the sound test is
        # that the server reached capacity at all during the run
        if prop_clauses is not None and prop_clauses.get('max_backlog', capacity) < capacity:
            return ('spurious_backlogfull', f'request {rid}: ServerBacklogFull({n}) but the backlog never reached capacity {capacity}')
        if rec['bp']:
            return None
        if rec['timeout'] == 'long':
            return ('unanswered', f'request {rid} with unbounded timeout was rejected with ServerBacklogFull after {rec["t1"] - rec["t0"]:.1f}s virtual')
        if rec['t1'] - rec['t0'] < 0.99 * rec['timeout'] - 1e-9:
            return ('early_backlogfull', f'request {rid} rejected after {rec["t1"] - rec["t0"]:.4f}s < 0.99*timeout')
        return None
    obs = sv.norm_outcome('value' if kind == 'value' else 'exc', rec['payload'])
    why = sv.match_expected(obs, exp)
    if why is None:
        late_tol = (prop_clauses or {}).get('late_tol', 1e-6)
        if rec['timeout'] != 'long' and late_tol is not None and not rec.get('untimed') and rec['t1'] - rec['t0'] > rec['timeout'] + late_tol:
            # `timeout` covers the whole call, the wait for a slot included: whatever comes back after the deadline should have been a TimeoutError
            return ('answered_after_deadline', f'request {rid} (timeout {rec["timeout"]}) got its answer after {rec["t1"] - rec["t0"]:.4f}s virtual')
        if rec['timeout'] == 'long' and rec['t1'] - rec['t0'] > 100.0 and not rec.get('untimed'):
            # all generated service times, batch waits and call timeouts are milliseconds: a request that comes back after minutes of
            # virtual time was not served when the server could serve it, it was let in only because its own wait for a slot expired
            return ('served_only_at_deadline', f'request {rid} (unbounded timeout) was answered correctly, but only after {rec["t1"] - rec["t0"]:.1f}s virtual: it sat waiting next to a server that had room')
        return None
    return ('wrong_outcome', f'request {rid}: {why}')


def run_case(spec, lines=False):
    alloc = Alloc(spec.get('alloc_bits', []))
    obs = sv.run_server(spec, alloc=alloc, lines=lines)
    out = obs.out
    hang_check(out)
    if out.exc is not None:
        raise Violation('scenario_exception', f'{type(out.exc).__name__}: {out.exc}', signature=['exc', type(out.exc).__name__])
    if obs.enter_exc is not None:
        raise Violation('enter_failed', f'{type(obs.enter_exc).__name__}: {obs.enter_exc}', signature=['enter', type(obs.enter_exc).__name__])
    tree = spec['tree']
    reqs = {int(k): v for k, v in spec['reqs'].items()}
    poison = sv.batch_poison_map(tree, reqs, obs.log)
    in_flight_overlap = False
    failed_then_ok = False
    seen_fail_t = None
    for rec in sorted(obs.calls, key=lambda r: r['t1']):
        rec['forced'] = poison.get(rec['rid'])
        bad = judge_call(rec, tree, reqs, spec['capacity'], {'max_backlog': obs.max_backlog})
        if bad:
            raise Violation(bad[0], bad[1], signature=[bad[0]])
        if rec['kind'] in ('exc', 'timeout'):
            seen_fail_t = rec['t1'] if seen_fail_t is None else min(seen_fail_t, rec['t1'])
        elif rec['kind'] == 'value' and seen_fail_t is not None and rec['t1'] > seen_fail_t:
            failed_then_ok = True
    for s in obs.streams:
        term = s.get('term')
        if isinstance(term, tuple):
            raise Violation('stream_raised', f'stream with return_exceptions=True raised {type(term[1]).__name__}: {term[1]}', signature=['stream_raised', type(term[1]).__name__])
        rids = s['spec']['rids']
        for k, (x, y) in enumerate(s['items']):
            try:
                xr = sv.unpack(x)[0]
            except Exception:
                raise Violation('stream_pairing', f'stream yielded a non-input as x: {x!r}', signature=['stream_pairing'])
            if xr != rids[k]:
                raise Violation('stream_order', f'stream position {k}: yielded input {xr}, expected {rids[k]}', signature=['stream_order'])
            rec = {'rid': xr, 'timeout': 'long', 'bp': False, 't0': s['t0'], 't1': s.get('t1', s['t0']), 'kind': 'exc' if isinstance(y, BaseException) else 'value', 'payload': y, 'forced': poison.get(xr)}
            from mpservice import TimeoutError as MpTimeoutError

            if isinstance(y, MpTimeoutError):
                rec['kind'] = 'timeout'
            bad = judge_call(rec, tree, reqs, spec['capacity'], {'max_backlog': obs.max_backlog})
            if bad:
                raise Violation('stream_' + bad[0], bad[1], signature=['stream_' + bad[0]])
        if term == 'end' and len(s['items']) != len(rids):
            raise Violation('stream_count', f'stream of {len(rids)} inputs ended after {len(s["items"])} outputs', signature=['stream_count'])
    n_inflight = obs.max_backlog
    nontrivial = n_inflight >= 2 and failed_then_ok
    kinds = sorted({r['kind'] for r in obs.calls})
    return CaseInfo(
        nontrivial=nontrivial,
        descriptor=[tree, spec['capacity'], spec['reqs'], spec['callers'], spec['streams'], out.sim.trace[:50]],
        classes=tuple(['tree_' + tree['t'], f'maxbacklog{min(n_inflight, 4)}', 'recycled' if alloc.recycled else 'norecycle'] + ['saw_' + k for k in kinds]),
        metrics={'steps': out.sim.steps, 'threads': out.sim.max_threads, 'max_backlog': n_inflight, 'recycled_ids': alloc.recycled},
        sample={'tree': tree, 'capacity': spec['capacity'], 'n_requests': len(reqs), 'callers': [[s['rid'] for s in c] for c in spec['callers']], 'streams': [s['rids'] for s in spec['streams']], 'outcomes': [(r['rid'], r['kind']) for r in obs.calls][:12]},
    )


def _warm():
    spec = {
        'tree': {'t': 'seq', 'ch': [{'t': 'w', 'tag': 'A', 'n': 2, 'bs': 2, 'bw': 0.01}, {'t': 'ens', 'ff': True, 'ch': [{'t': 'w', 'tag': 'B', 'n': 1}, {'t': 'w', 'tag': 'C', 'n': 1}]}]},
        'capacity': 4,
        'reqs': {'0': {'d': {'A': 0.001}, 'f': {}, 'pf': {}, 'r': 0}, '1': {'d': {}, 'f': {'B': 'ValueError'}, 'pf': {}, 'r': 0}},
        'callers': [[{'rid': 0, 'timeout': 'long', 'bp': False, 'think': 0}]],
        'streams': [{'rids': [1], 'abandon': None, 'cons_delay': 0}],
        'alloc_bits': [],
        'sched': {'kind': 'default'},
    }
    for _ in range(2):
        run_case(spec)


RULE = (
    'servlet trees from a grammar (thread workers 1-3 threads, batch_size 0-3, preprocess; sequential/ensemble(fail_fast)/switch, depth<=2) x 1-16 self-describing requests with per-stage '
    'virtual delays and failures x 1-5 caller threads with scripts of call(timeout long/short, backpressure) x 0-2 stream consumers (full/abandoned) x capacity 1-32 x identity allocator bits x schedule. '
    'Oracle: reference evaluator of the tree; TimeoutError/ServerBacklogFull only when legal. Non-trivial: >=2 requests in flight at some step AND an earlier request failed/timed out before a later one '
    'succeeded; distinct by (tree, requests, scripts, schedule trace prefix).'
)

FAMILIES = [
    Family('F1_server', 'sim', spec_strategy(), run_case, quick=2500, thorough=120_000, shards_quick=12, rule=RULE, setup=_warm),
    Family('F2_ensemble_id_reuse', 'sim', ens_recycle_spec(), run_case, quick=1500, thorough=60_000, shards_quick=4, rule='fail-fast / plain ensembles with one slow member per request, back-to-back callers, identity allocator biased to recycle freed ids; same oracle as F1. Non-trivial as F1.', setup=_warm),
]
