"""C06 - backlog never exceeds capacity; backpressure rejects at once and leaves no trace; slots are always returned."""
from hypothesis import strategies as st

from vf.core import CaseInfo, Family, Violation, hang_check, sched_strategy

from . import serverlib as sv

ASSUMPTIONS = [
    'server.backlog and server.capacity (public) are sampled at EVERY scheduling step of the deterministic scheduler',
    'stall budget 0: virtual time advances only when every thread is blocked, so waiting bounds are exact',
    'idle = after a virtual wait longer than the sum of all generated service times, with no caller active',
]


@st.composite
def spec_strategy(draw):
    if draw(st.integers(0, 3)) == 0:
        tree = draw(sv.tree_strategy(depth=1, batch=draw(st.booleans())))
    else:
        tree = {'t': 'w', 'tag': 'A', 'n': draw(st.sampled_from([1, 2, 3])), 'pre': False}
        bs = draw(st.sampled_from([None, None, None, 1, 2]))  # a slot must come back from batching workers too (a failing batch, a batch of one)
        if bs is not None:
            tree['bs'] = bs
            if bs > 1:
                tree['bw'] = draw(st.sampled_from([0, 0.01]))
        if draw(st.booleans()):
            tree = {'t': 'seq', 'ch': [tree, {'t': 'w', 'tag': 'B', 'n': draw(st.sampled_from([1, 2])), 'pre': False}]}
    capacity = draw(st.sampled_from([1, 1, 2, 2, 3, 4]))
    ncallers = draw(st.integers(2, 8))
    reqs = {}
    callers = []
    rid = 0
    for c in range(ncallers):
        script = []
        for _ in range(draw(st.integers(1, 3))):
            reqs[str(rid)] = draw(sv.plan_strategy(tree, p_fail=0.2, p_delay=0.9))
            tsel = draw(st.sampled_from(['long', 'long', 'short', 'short']))
            timeout = 'long' if tsel == 'long' else draw(st.sampled_from([0.0005, 0.003, 0.012, 0.05, 0.15]))
            script.append({'rid': rid, 'timeout': timeout, 'bp': draw(st.booleans()), 'think': draw(st.sampled_from([0, 0, 0, 0.001, 0.01]))})
            rid += 1
        callers.append(script)
    streams = []
    if draw(st.integers(0, 2)) == 0:
        k = draw(st.integers(1, 6))
        sr = []
        for _ in range(k):
            reqs[str(rid)] = draw(sv.plan_strategy(tree, p_fail=0.2, p_delay=0.9))
            sr.append(rid)
            rid += 1
        streams.append({'rids': sr, 'abandon': draw(st.one_of(st.none(), st.integers(0, k))), 'cons_delay': draw(st.sampled_from([0, 0.01]))})
    return {'tree': tree, 'capacity': capacity, 'reqs': reqs, 'callers': callers, 'streams': streams, 'sched': draw(sched_strategy(max_len=250, est_steps=3000, depth=4))}


def judge(spec, obs):
    out = obs.out
    hang_check(out)
    if out.exc is not None:
        raise Violation('scenario_exception', f'{type(out.exc).__name__}: {out.exc}', signature=['exc', type(out.exc).__name__])
    if obs.enter_exc is not None:
        raise Violation('enter_failed', f'{type(obs.enter_exc).__name__}: {obs.enter_exc}', signature=['enter'])
    cap = spec['capacity']
    if obs.overshoot is not None:
        b, c, step = obs.overshoot
        raise Violation('overshoot', f'backlog {b} > capacity {c} at scheduling step {step} (max observed {obs.max_backlog})', signature=['overshoot'])
    worked = {r[4] for r in obs.log if r[0] == 'single'} | {x for r in obs.log if r[0] == 'batch' and isinstance(r[4], list) for x in r[4]}
    waited_when_full = False
    for rec in obs.calls:
        dt = rec['t1'] - rec['t0']
        if rec['kind'] == 'backlogfull':
            n, waited = rec['payload'].args
            # (the count in the message is read after the check and may legitimately be lower by then)
            if obs.max_backlog < cap:
                raise Violation('spurious_backlogfull', f"request {rec['rid']}: ServerBacklogFull({n}) but the backlog never reached capacity {cap}", signature=['spurious_backlogfull'])
            if rec['bp']:
                if dt > 1e-12 and not rec.get('untimed'):
                    raise Violation('backpressure_waited', f"request {rec['rid']}: backpressure rejection took {dt:.6f}s virtual, must be immediate", signature=['backpressure_waited'])
            else:
                waited_when_full = True
                if rec['timeout'] == 'long':
                    raise Violation('unanswered', f"request {rec['rid']} (unbounded timeout) rejected with ServerBacklogFull after {dt:.1f}s", signature=['unanswered'])
            if rec['rid'] in worked:
                raise Violation('rejected_but_processed', f"request {rec['rid']} was rejected with ServerBacklogFull but reached a worker", signature=['rejected_but_processed'])
        if rec['timeout'] != 'long' and dt > rec['timeout'] + 1e-9 and not rec.get('untimed'):
            raise Violation('waited_beyond_timeout', f"request {rec['rid']}: call took {dt:.6f}s > timeout {rec['timeout']} (outcome {rec['kind']})", signature=['waited_beyond_timeout', rec['kind']])
        if rec['timeout'] == 'long' and rec['kind'] == 'timeout':
            raise Violation('unanswered', f"request {rec['rid']} (unbounded timeout) raised TimeoutError after {dt:.1f}s virtual", signature=['unanswered'])
        if not rec['bp'] and rec['backlog_before'] >= cap:
            waited_when_full = True
    for ci in obs.cycle_info:
        if ci['idle_backlog'] != 0:
            raise Violation('slot_leak', f"idle server has backlog {ci['idle_backlog']} (capacity {cap}); outcomes {[(r['rid'], r['kind']) for r in obs.calls]}", signature=['slot_leak'])
    return waited_when_full


def run_case(spec):
    obs = sv.run_server(spec)
    waited = judge(spec, obs)
    out = obs.out
    kinds = sorted({r['kind'] for r in obs.calls})
    full = obs.max_backlog == spec['capacity']
    return CaseInfo(
        nontrivial=full and waited,
        descriptor=[spec['tree'], spec['capacity'], spec['callers'], spec['streams'], spec['reqs'], out.sim.trace[:50]],
        classes=tuple([f"cap{spec['capacity']}", 'full' if full else 'notfull', 'waited_when_full' if waited else 'nowait'] + ['saw_' + k for k in kinds] + (['abandoned_stream'] if any(s.get('term') == 'abandoned' for s in obs.streams) else [])),
        metrics={'steps': out.sim.steps, 'max_backlog_minus_capacity': obs.max_backlog - spec['capacity'], 'threads': out.sim.max_threads},
        sample={'tree': spec['tree'], 'capacity': spec['capacity'], 'callers': [[(s['rid'], s['timeout'], s['bp']) for s in c] for c in spec['callers']], 'max_backlog': obs.max_backlog, 'outcomes': [(r['rid'], r['kind']) for r in obs.calls][:14]},
    )


def _warm():
    spec = {
        'tree': {'t': 'w', 'tag': 'A', 'n': 2, 'pre': False},
        'capacity': 1,
        'reqs': {'0': {'d': {'A': 0.01}, 'f': {}, 'pf': {}, 'r': 0}, '1': {'d': {}, 'f': {}, 'pf': {}, 'r': 0}},
        'callers': [[{'rid': 0, 'timeout': 'long', 'bp': False, 'think': 0}], [{'rid': 1, 'timeout': 0.05, 'bp': True, 'think': 0}]],
        'streams': [],
        'sched': {'kind': 'default'},
    }
    for _ in range(2):
        try:
            run_case(spec)
        except Violation:
            pass


RULE = (
    'Server(capacity 1-4) over thread servlets; 2-8 caller threads with scripts of 1-3 calls mixing backpressure on/off, short (0.5-150 ms) and unbounded timeouts, worker delays and failures, '
    'optional abandoned stream; schedule default/tape/PCT. Invariant backlog<=capacity at every scheduling step; backpressure rejection immediate, count>=capacity, request never reaches a worker; '
    'no call outlives its timeout; idle backlog == 0. Non-trivial: backlog reached capacity AND >=1 non-backpressure caller arrived at a full server; distinct by (tree, capacity, scripts, schedule prefix).'
)

@st.composite
def async_spec(draw):
    spec = draw(spec_strategy())
    # async callers may also be cancelled while their call is pending
    for script in spec['callers']:
        for step in script:
            if draw(st.integers(0, 6)) == 0:
                step['cancel_after'] = draw(st.sampled_from([0.0, 0.001, 0.004, 0.02]))
    return spec


def run_async_case(spec):
    obs = sv.run_async_server(spec)
    # cancelled calls have no outcome to judge; they must still give their slot back (idle backlog below)
    obs.calls = [r for r in obs.calls if r['kind'] != 'cancelled'] + []
    waited = judge(spec, obs)
    out = obs.out
    kinds = sorted({r['kind'] for r in obs.calls})
    full = obs.max_backlog == spec['capacity']
    cancelled = any(step.get('cancel_after') is not None for sc in spec['callers'] for step in sc)
    return CaseInfo(
        nontrivial=full and waited,
        descriptor=['async', spec['tree'], spec['capacity'], spec['callers'], spec['streams'], spec['reqs']],
        classes=tuple(['async', f"cap{spec['capacity']}", 'full' if full else 'notfull', 'waited_when_full' if waited else 'nowait', 'with_cancellation' if cancelled else 'no_cancellation'] + ['saw_' + k for k in kinds]),
        metrics={'steps': out.sim.steps, 'max_backlog_minus_capacity': obs.max_backlog - spec['capacity']},
        sample={'tree': spec['tree'], 'capacity': spec['capacity'], 'callers': [[(s['rid'], s['timeout'], s['bp'], s.get('cancel_after')) for s in c] for c in spec['callers']], 'max_backlog': obs.max_backlog, 'outcomes': [(r['rid'], r['kind']) for r in obs.calls][:14]},
    )

# --------------------------------------------------------------------------- F3 any result value gives the slot back

VALUES = [None, None, 0, False, '', [], (), 'v', 1, {'k': None}]


@st.composite
def values_spec(draw):
    shape = draw(st.sampled_from(['w', 'seq_w', 'ens', 'ens', 'seq_ens', 'switch']))
    k = draw(st.integers(2, 3)) if 'ens' in shape or shape == 'switch' else 1
    nreq = draw(st.integers(1, 8))
    table = [[draw(st.integers(0, len(VALUES) - 1)) for _ in range(k)] for _ in range(nreq)]  # request x member -> index into VALUES
    nthreads = draw(st.integers(1, 3))
    return {'shape': shape, 'k': k, 'ff': draw(st.booleans()), 'table': table, 'owners': [draw(st.integers(0, nthreads - 1)) for _ in range(nreq)], 'nthreads': nthreads,
            'capacity': draw(st.sampled_from([1, 2, 3, 8])), 'delays': [draw(st.sampled_from([0, 0, 0.001, 0.01])) for _ in range(k)], 'sched': draw(sched_strategy(max_len=120, est_steps=1500, depth=3))}


def run_values_case(spec):
    import threading
    import time

    from vf.core import run_sim

    results = {}
    box = {}

    def scenario():
        from mpservice.mpserver import EnsembleServlet, SequentialServlet, Server, SwitchServlet, ThreadServlet, Worker

        class Pass(Worker):
            def call(self, x):
                return x

        class Val(Worker):
            def __init__(self, *, member, **kw):
                super().__init__(**kw)
                self.member = member

            def call(self, x):
                d = spec['delays'][self.member]
                if d:
                    time.sleep(d)
                return VALUES[spec['table'][x][self.member]]

        class Switch(SwitchServlet):
            def switch(self, x):
                return spec['table'][x][0] % spec['k']

        members = [ThreadServlet(Val, member=m) for m in range(spec['k'])]
        shape = spec['shape']
        if shape == 'w':
            servlet = members[0]
        elif shape == 'seq_w':
            servlet = SequentialServlet(ThreadServlet(Pass), members[0])
        elif shape == 'ens':
            servlet = EnsembleServlet(*members, fail_fast=spec['ff'])
        elif shape == 'seq_ens':
            servlet = SequentialServlet(ThreadServlet(Pass), EnsembleServlet(*members, fail_fast=spec['ff']))
        else:
            servlet = Switch(*members)
        with Server(servlet, capacity=spec['capacity']) as server:

            def caller(t):
                for rid, o in enumerate(spec['owners']):
                    if o != t:
                        continue
                    try:
                        results[rid] = ('value', server.call(rid, timeout=1000, backpressure=False))
                    except Exception as e:
                        results[rid] = ('exc', type(e).__name__, str(e)[:100])

            ths = [threading.Thread(target=caller, args=(t,), name=f'harness-caller-{t}') for t in range(spec['nthreads'])]
            for t in ths:
                t.start()
            for t in ths:
                t.join()
            time.sleep(1.0)
            box['idle_backlog'] = server.backlog
        return True

    out = run_sim(scenario, spec['sched'], horizon=50_000.0, max_steps=400_000)
    hang_check(out)
    if out.exc is not None:
        raise Violation('scenario_exception', f'{type(out.exc).__name__}: {out.exc}', signature=['exc', type(out.exc).__name__])
    falsy = 0
    for rid, row in enumerate(spec['table']):
        if spec['shape'] in ('w', 'seq_w'):
            want = VALUES[row[0]]
        elif spec['shape'] == 'switch':
            want = VALUES[row[row[0] % spec['k']]]
        else:
            want = [VALUES[i] for i in row]
        falsy += any(not VALUES[i] for i in row)
        got = results.get(rid)
        if got is None or got[0] != 'value':
            raise Violation('unanswered', f"request {rid} (timeout 1000 s, result values {want!r}) ended with {got}; shape {spec['shape']}", signature=['unanswered', 'values'])
        if repr(got[1]) != repr(want):
            raise Violation('wrong_result', f'request {rid}: got {got[1]!r}, expected {want!r}', signature=['wrong_result', 'values'])
    if box.get('idle_backlog') != 0:
        raise Violation('slot_leak', f"idle server has backlog {box.get('idle_backlog')} after every call returned (shape {spec['shape']})", signature=['slot_leak', 'values'])
    return CaseInfo(
        nontrivial=falsy > 0,
        descriptor=[spec['shape'], spec['k'], spec['ff'], spec['table'], spec['owners'], spec['capacity'], out.sim.trace[:30]],
        classes=(spec['shape'], 'with_None' if any(VALUES[i] is None for row in spec['table'] for i in row) else 'no_None', f"cap{spec['capacity']}"),
        metrics={'steps': out.sim.steps, 'requests': len(spec['table'])},
        sample={'shape': spec['shape'], 'values': [[repr(VALUES[i]) for i in row] for row in spec['table']][:4], 'capacity': spec['capacity']},
    )


FAMILIES = [
    Family('F1_server', 'sim', spec_strategy(), run_case, quick=2500, thorough=120_000, shards_quick=12, rule=RULE, setup=_warm),
    Family('F2_async_server', 'sim', async_spec(), run_async_case, quick=1500, thorough=80_000, shards_quick=8, rule='as F1 for AsyncServer: callers are tasks on a scheduler-aware event loop, some calls are cancelled while pending; same invariants (every step) and clauses.', setup=_warm),
    Family('F3_any_result_value', 'sim', values_spec(), run_values_case, quick=800, thorough=40_000, shards_quick=4, rule='workers (single, after a pass-through stage, members of an ensemble with either fail_fast, members of a switch) return generated values including None and other falsy objects; 1-8 requests from 1-3 threads, capacity 1-8, schedules. Oracle: every call returns exactly the planned value (list of member values for an ensemble) and the idle server has backlog 0. Non-trivial: some result value is falsy.', setup=_warm),
]
