"""C01 - parallel map (parmap / fifo_stream) is order-preserving and exactly-once."""
import concurrent.futures
import threading
import time
import zlib

from hypothesis import strategies as st

from vf.core import CaseInfo, Family, Violation, hang_check, run_sim, sched_strategy
from vf.detsched import SimAbort, cur

from . import streamlib as sl
from . import targets

ASSUMPTIONS = [
    'thread schedules are owned by detsched (preemption at lock/blocking/start/join/sleep points); completion order is owned '
    'either directly (resolver thread completing bare Futures in a generated permutation) or through generated virtual durations',
    'process executor family samples the OS schedule (real processes, small real sleeps)',
    'worker functions are pure functions of the element value',
]

VALUES = st.one_of(
    st.integers(0, 6),
    st.sampled_from(['a', 'b', '', 'xyz']),
    st.tuples(st.integers(0, 3), st.sampled_from(['p', 'q'])),
)


def vhash(v):
    return zlib.crc32(repr(v).encode())


def make_f(fails, exc, delays, log, timed=True):
    fails = [tuple(x) if isinstance(x, list) else x for x in fails]

    def f(v):
        if log is not None:
            log.append(('enter', v))
        try:
            d = delays[vhash(v) % len(delays)]
            if timed and d > 0:
                time.sleep(d)
            if v in fails:
                raise sl.make_exc(exc, 0, repr(v))
            return ('r', v)
        finally:
            if log is not None:
                log.append(('exit', v))

    return f


def make_af(fails, exc, delays, log):
    import asyncio

    fails = [tuple(x) if isinstance(x, list) else x for x in fails]

    async def f(v):
        log.append(('enter', v))
        try:
            d = delays[vhash(v) % len(delays)]
            if d > 0:
                await asyncio.sleep(d)
            if v in fails:
                raise sl.make_exc(exc, 0, repr(v))
            return ('r', v)
        finally:
            log.append(('exit', v))

    return f


def make_pre(kind, pre_fails, exc):
    pre_fails = [tuple(x) if isinstance(x, list) else x for x in pre_fails]
    if kind == 'none':
        return None

    def pre(x):
        if x in pre_fails:
            raise sl.make_exc(exc, 1, repr(x))
        if kind == 'extract':
            return ('part', x)
        return x

    return pre


def untuple(v):
    return tuple(untuple(x) for x in v) if isinstance(v, list) else v


def reference(spec):
    """sequential map: list of outputs and terminal"""
    xs = [untuple(v) for v in spec['xs']]
    f = make_f(spec['fails'], spec['exc'], [0.0], None, timed=False)
    pre = make_pre(spec['pre'], spec['pre_fails'], spec['exc'])
    outs = []
    calls = []
    term = 'end'
    for x in xs:
        try:
            xx = x if pre is None else pre(x)
            calls.append(xx)
            y = f(xx)
        except Exception as e:
            if spec['rexc']:
                y = e
            else:
                term = sl.norm(e)
                break
        outs.append(sl.norm((x, y) if spec['rx'] else y))
    return outs, term, calls


@st.composite
def base_spec(draw, max_n=40):
    xs = draw(st.lists(VALUES, max_size=max_n))
    spec = {'xs': xs}
    nf = draw(st.sampled_from([0, 0, 1, 2]))
    spec['fails'] = draw(st.lists(st.sampled_from(xs), max_size=nf)) if xs else []
    spec['exc'] = draw(st.sampled_from(sl.EXC_NAMES))
    spec['pre'] = draw(st.sampled_from(['none', 'none', 'identity', 'extract']))
    spec['pre_fails'] = draw(st.lists(st.sampled_from(xs), max_size=draw(st.integers(0, 2)))) if xs and spec['pre'] != 'none' else []
    spec['rx'] = draw(st.booleans())
    spec['rexc'] = draw(st.sampled_from([True, True, False]))
    spec['delays'] = draw(sl.delays_strategy(6))
    spec['cons_delays'] = draw(sl.delays_strategy(3))
    # a source slower than the workers leaves the hand-off queue empty while the consumer waits on it
    spec['src_delays'] = draw(st.one_of(st.just([0.0]), st.just([0.0]), sl.delays_strategy(4)))
    return spec


def slow_source(xs, delays):
    import time

    for i, x in enumerate(xs):
        d = delays[i % len(delays)]
        if d > 0:
            time.sleep(d)
        yield x


def check_outputs(spec, outs, term, calls_log, sim_out):
    exp_outs, exp_term, exp_calls = reference(spec)
    if outs != exp_outs or term != exp_term:
        # locate first difference
        k = next((i for i, (a, b) in enumerate(zip(outs, exp_outs)) if a != b), min(len(outs), len(exp_outs)))
        raise Violation(
            'outputs',
            f'first difference at position {k}: got {outs[k:k+2]} term={term}, sequential map gives {exp_outs[k:k+2]} term={exp_term} (n={len(exp_outs)})',
            signature=['outputs', 'count' if len(outs) != len(exp_outs) else ('term' if outs == exp_outs else 'value')],
        )
    entered = [v for (k, v) in calls_log if k == 'enter']
    # exactly-once: on full consumption without a propagating failure, multiset of calls == multiset of (preprocessed) inputs
    if term == 'end':
        want = []
        p = make_pre(spec['pre'], spec['pre_fails'], spec['exc'])
        for x in [untuple(v) for v in spec['xs']]:
            try:
                want.append(x if p is None else p(x))
            except Exception:
                pass
        if sorted(map(repr, entered)) != sorted(map(repr, want)):
            raise Violation('exactly_once', f'worker received {sorted(map(repr, entered))}, inputs were {sorted(map(repr, want))}', signature=['exactly_once'])
    else:
        # after a failure no element may have been called more often than it occurs in the input
        from collections import Counter

        p = make_pre(spec['pre'], spec['pre_fails'], spec['exc'])
        avail = Counter()
        for x in [untuple(v) for v in spec['xs']]:
            try:
                avail[repr(x if p is None else p(x))] += 1
            except Exception:
                pass
        got = Counter(map(repr, entered))
        over = {k: (got[k], avail[k]) for k in got if got[k] > avail[k]}
        if over:
            raise Violation('at_most_once', f'calls exceeding input multiplicity: {over}', signature=['at_most_once'])


def inversions(order_submitted, order_completed):
    pos = {id_: i for i, id_ in enumerate(order_submitted)}
    seq = [pos[i] for i in order_completed if i in pos]
    return sum(1 for a in range(len(seq)) for b in range(a + 1, min(len(seq), a + 12)) if seq[a] > seq[b])


# --------------------------------------------------------------------------- F1: fifo_stream with bare futures


@st.composite
def f1_spec(draw):
    spec = draw(base_spec(30))
    spec['capacity'] = draw(st.sampled_from([1, 1, 2, 2, 3, 4, 6]))
    spec['order'] = draw(st.lists(st.integers(0, 7), max_size=60))
    spec['sched'] = draw(sched_strategy(max_len=150, est_steps=800, depth=4))
    return spec


def run_f1(spec):
    from mpservice.streamer import fifo_stream

    xs = [untuple(v) for v in spec['xs']]
    log = []
    f = make_f(spec['fails'], spec['exc'], [0.0], log, timed=False)
    pre = make_pre(spec['pre'], spec['pre_fails'], spec['exc'])
    box = {'resolved': [], 'submitted': []}

    def scenario():
        cond = threading.Condition()
        pending = []
        state = {'stop': False, 'serial': 0}

        def func(x):
            fut = concurrent.futures.Future()
            with cond:
                state['serial'] += 1
                box['submitted'].append(state['serial'])
                pending.append((state['serial'], x, fut))
                cond.notify()
            return fut

        def resolver():
            j = 0
            order = spec['order']
            while True:
                with cond:
                    while not pending and not state['stop']:
                        cond.wait()
                    if state['stop'] and not pending:
                        return
                    k = order[j % len(order)] if order else 0
                    j += 1
                    serial, x, fut = pending.pop(k % len(pending))
                box['resolved'].append(serial)
                if fut.cancelled():
                    continue
                try:
                    y = f(x)
                except Exception as e:
                    try:
                        fut.set_exception(e)
                    except concurrent.futures.InvalidStateError:
                        pass
                else:
                    try:
                        fut.set_result(y)
                    except concurrent.futures.InvalidStateError:
                        pass

        rt = threading.Thread(target=resolver, name='harness-resolver')
        rt.start()
        it = fifo_stream(slow_source(xs, spec.get('src_delays', [0.0])), func, capacity=spec['capacity'], return_x=spec['rx'], return_exceptions=spec['rexc'], preprocessor=pre)
        outs, term = sl.consume(it, {'kind': 'all'}, spec['cons_delays'])
        it.close()
        with cond:
            state['stop'] = True
            cond.notify_all()
        rt.join()
        return outs, term

    out = run_sim(scenario, spec['sched'], horizon=600.0, max_steps=200_000)
    hang_check(out)
    if out.exc is not None:
        raise Violation('scenario_exception', f'{type(out.exc).__name__}: {out.exc}', signature=['exc', type(out.exc).__name__])
    outs, term = out.result
    check_outputs(spec, outs, term, log, out)
    inv = inversions(box['submitted'], box['resolved'])
    n = len(xs)
    return CaseInfo(
        nontrivial=inv >= 1 and n > spec['capacity'],
        descriptor=['F1', spec['xs'], spec['capacity'], box['resolved'][:40], spec['rx'], spec['rexc'], spec['pre']],
        classes=(f"cap{min(spec['capacity'], 4)}", 'inv' if inv else 'noinv', 'wrap' if n > spec['capacity'] + 1 else 'nowrap', f"pre_{spec['pre']}", 'failprop' if term != 'end' else 'full', 'slow_source' if max(spec.get('src_delays', [0.0])) > 0 else 'fast_source', 'source_stall_1s' if max(spec.get('src_delays', [0.0])) >= 1.0 else 'no_stall'),
        metrics={'inversions': inv, 'steps': out.sim.steps, 'n': n},
        sample={'xs': spec['xs'][:12], 'capacity': spec['capacity'], 'completion_order': box['resolved'][:20], 'outs': outs[:6], 'term': term},
    )


# --------------------------------------------------------------------------- F2/F3: Stream.parmap thread / coroutine


@st.composite
def f2_spec(draw, modes=('thread', 'thread', 'coro')):
    spec = draw(base_spec(40))
    spec['mode'] = draw(st.sampled_from(list(modes)))
    spec['c'] = draw(st.sampled_from([1, 1, 2, 2, 3, 4]))
    spec['sched'] = draw(sched_strategy(max_len=150, est_steps=1500, depth=4))
    return spec


def run_f2(spec):
    from mpservice.streamer import Stream

    xs = [untuple(v) for v in spec['xs']]
    log = []
    pre = make_pre(spec['pre'], spec['pre_fails'], spec['exc'])
    kw = {}
    if pre is not None:
        kw['preprocessor'] = pre

    def scenario():
        s = Stream(slow_source(xs, spec.get('src_delays', [0.0])))
        if spec['mode'] == 'thread':
            s.parmap(make_f(spec['fails'], spec['exc'], spec['delays'], log), executor='thread', concurrency=spec['c'], return_x=spec['rx'], return_exceptions=spec['rexc'], **kw)
        else:
            s.parmap(make_af(spec['fails'], spec['exc'], spec['delays'], log), concurrency=spec['c'], return_x=spec['rx'], return_exceptions=spec['rexc'], **kw)
        it = iter(s)
        outs, term = sl.consume(it, {'kind': 'all'}, spec['cons_delays'])
        it.close()
        return outs, term

    out = run_sim(scenario, spec['sched'], horizon=600.0, max_steps=300_000)
    hang_check(out)
    if out.exc is not None:
        raise Violation('scenario_exception', f'{type(out.exc).__name__}: {out.exc}', signature=['exc', type(out.exc).__name__])
    outs, term = out.result
    check_outputs(spec, outs, term, log, out)
    entered = [i for i, (k, v) in enumerate(log) if k == 'enter']
    # completion vs submission order by log positions of matching enter/exit pairs (values may repeat: pair FIFO per value)
    from collections import defaultdict, deque

    open_ = defaultdict(deque)
    sub, comp = [], []
    for i, (k, v) in enumerate(log):
        if k == 'enter':
            open_[repr(v)].append(i)
            sub.append(i)
        else:
            comp.append(open_[repr(v)].popleft())
    inv = inversions(sub, comp)
    n = len(xs)
    cap = 2 * spec['c']
    return CaseInfo(
        nontrivial=inv >= 1 and n > cap,
        descriptor=['F2', spec['mode'], spec['xs'], spec['c'], comp[:40], spec['rx'], spec['rexc'], spec['pre']],
        classes=(f"mode_{spec['mode']}", f"c{spec['c']}", 'inv' if inv else 'noinv', 'wrap' if n > cap + 1 else 'nowrap', f"pre_{spec['pre']}", 'failprop' if term != 'end' else 'full', 'slow_source' if max(spec.get('src_delays', [0.0])) > 0 else 'fast_source', 'source_stall_1s' if max(spec.get('src_delays', [0.0])) >= 1.0 else 'no_stall'),
        metrics={'inversions': inv, 'steps': out.sim.steps, 'n': n},
        sample={'mode': spec['mode'], 'xs': spec['xs'][:12], 'c': spec['c'], 'delays': spec['delays'], 'outs': outs[:6], 'term': term, 'inversions': inv},
    )


# --------------------------------------------------------------------------- F4: process executor (real, sampled)


@st.composite
def f4_spec(draw):
    n = draw(st.integers(0, 25))
    xs = draw(st.lists(st.integers(0, 9), min_size=n, max_size=n))
    return {
        'xs': xs,
        'fails': draw(st.lists(st.integers(0, 9), max_size=2)),
        'c': draw(st.sampled_from([1, 2, 3])),
        'rx': draw(st.booleans()),
        'rexc': draw(st.sampled_from([True, True, False])),
        'delays_ms': draw(st.lists(st.sampled_from([0, 0, 1, 3, 8, 20]), min_size=1, max_size=5)),
    }


def run_f4(spec):
    from vf.realproc import run_with_watchdog

    def case():
        from mpservice.streamer import Stream

        s = Stream(spec['xs']).parmap(
            targets.proc_fn, executor='process', concurrency=spec['c'], return_x=spec['rx'], return_exceptions=spec['rexc'], fails=tuple(spec['fails']), delays_ms=tuple(spec['delays_ms'])
        )
        outs = []
        term = 'end'
        try:
            for y in s:
                outs.append(sl.norm(y))
        except Exception as e:
            term = sl.norm(e)
        return outs, term

    outs, term = run_with_watchdog(case, budget_s=30, what='parmap(process)')
    exp, eterm = [], 'end'
    for x in spec['xs']:
        if x in spec['fails']:
            e = ValueError('proc_fn', x)
            if not spec['rexc']:
                eterm = sl.norm(e)
                break
            y = e
        else:
            y = ('r', x)
        exp.append(sl.norm((x, y) if spec['rx'] else y))
    if outs != exp or term != eterm:
        raise Violation('outputs', f'got {outs} term={term}; sequential map gives {exp} term={eterm}', signature=['outputs', 'process'])
    return CaseInfo(
        nontrivial=len(spec['xs']) > 2 * spec['c'] and len(set(spec['delays_ms'])) > 1,
        descriptor=['F4', spec],
        classes=(f"c{spec['c']}", 'failprop' if term != 'end' else 'full'),
        sample=spec,
    )


def _warm():
    spec = {'xs': [1, 2, 3], 'fails': [], 'exc': 'ValueError', 'pre': 'none', 'pre_fails': [], 'rx': False, 'rexc': True, 'delays': [0.001], 'cons_delays': [0.0], 'capacity': 2, 'order': [0], 'sched': {'kind': 'default'}, 'mode': 'thread', 'c': 2}
    for _ in range(2):
        run_f1(spec)
        run_f2(spec)
        run_f2(dict(spec, mode='coro'))


RULE = (
    'F1: fifo_stream over bare Futures completed by a harness resolver thread in a generated permutation of the currently pending ones; '
    'F2: Stream.parmap(thread | coroutine fn) with generated per-value virtual durations; F4: executor=process with real sleeps. Inputs: lists (<=40) of ints/strs/tuples '
    'with duplicates, failing values, preprocessor (identity/extractor/failing), return_x, return_exceptions, capacity/concurrency 1-6, failure types incl. those the library itself catches (TimeoutError, queue.Empty/Full), sources that are immediate or slow (incl. stalls of exactly 1 s = the scale of internal timeouts), schedule (default/sparse/tape/PCT, expiry races and expiry-last modifier). '
    'Oracle: sequential map + call-log multiset. Non-trivial: >=1 inversion between submission and completion order AND n > capacity (queue wrap-around); '
    'distinct by (inputs, config, completion order).'
)

FAMILIES = [
    Family('F1_fifo_bare_futures', 'sim', f1_spec(), run_f1, quick=2500, thorough=150_000, shards_quick=6, rule='see RULE', setup=_warm),
    Family('F2_parmap', 'sim', f2_spec(), run_f2, quick=2500, thorough=150_000, shards_quick=8, rule='see RULE', setup=_warm),
    Family('F4_process', 'real', f4_spec(), run_f4, quick=24, thorough=800, shards_quick=4, shards_thorough=12, rule='see RULE', shrink=False, retries=2),
]
