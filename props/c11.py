"""C11 - server starts all-or-nothing and stops completely; the same object can be entered again."""
import copy

from hypothesis import strategies as st

from vf.core import CaseInfo, Family, Inconclusive, Violation, hang_check, sched_strategy

from . import c02
from . import serverlib as sv

ASSUMPTIONS = [
    'fault enumeration: for every generated servlet tree EVERY (worker node, worker index) init-failure position is tried, plus the no-failure case',
    'thread servlets under the deterministic scheduler: "nothing left running" = every simulated thread started since before __enter__ is finished; '
    'ProcessServlet trees are sampled with real processes (multiprocessing.active_children / psutil census)',
    'workloads before exit come from the C02/C07 generators (failures, timeouts, abandoned streams), optionally left while abandoned requests are still in flight',
]

EXHAUSTIVE_NOTE = 'per generated tree the init-failure positions are enumerated exhaustively; trees, workloads and schedules are generated'


@st.composite
def tree_only(draw):
    tree = draw(sv.tree_strategy(depth=draw(st.integers(0, 2)), max_workers=7, batch=True))
    return {'tree': tree, 'sched': draw(sched_strategy(max_len=120, est_steps=800, depth=3))}


def positions(tree):
    out = []
    for n in sv.tree_tags(tree):
        for i in range(n.get('n', 1)):
            out.append((n['tag'], i))
    return out


def with_fault(tree, tag, idx):
    t = copy.deepcopy(tree)
    for n in sv.tree_tags(t):
        if n['tag'] == tag:
            n['init_fail'] = idx
    return t


def run_init_faults(spec):
    tree = spec['tree']
    pos = positions(tree)
    tried = 0
    later = 0
    for tag, idx in [(None, None)] + pos:
        t = tree if tag is None else with_fault(tree, tag, idx)
        s = {'tree': t, 'capacity': 4, 'reqs': {'0': {'d': {}, 'f': {}, 'pf': {}, 'r': 0}}, 'callers': [[{'rid': 0, 'timeout': 'long', 'bp': False, 'think': 0}]], 'streams': [], 'sched': spec['sched']}
        obs = sv.run_server(s)
        tried += 1
        try:
            hang_check(obs.out)
        except Violation as v:
            v.detail = f'init failure at {(tag, idx)}: ' + v.detail
            if tag is not None and v.clause.startswith('leak'):
                # threads left running after a failed __enter__ show up as a leak at the end of the scenario
                left = getattr(obs, 'after_enter_fail_alive', None)
                raise Violation('left_running_after_failed_enter', f'worker {(tag, idx)} failed to initialise; still running afterwards: {left}', signature=['left_running_after_failed_enter'])
            raise
        if tag is None:
            if obs.enter_exc is not None:
                raise Violation('enter_failed', f'{type(obs.enter_exc).__name__}: {obs.enter_exc}', signature=['enter'])
            _judge_cycles(s, obs)
            continue
        e = obs.enter_exc
        if e is None:
            raise Violation('enter_did_not_raise', f'worker {(tag, idx)} raised in __init__ but __enter__ returned normally', signature=['enter_did_not_raise'])
        if type(e).__name__ != 'InitError' or tuple(e.args) != (tag, idx):
            raise Violation('wrong_init_error', f'worker {(tag, idx)} failed but __enter__ raised {type(e).__name__}{e.args}', signature=['wrong_init_error'])
        left = getattr(obs, 'after_enter_fail_alive', [])
        if left:
            raise Violation('left_running_after_failed_enter', f'worker {(tag, idx)} failed to initialise; still running afterwards: {left}', signature=['left_running_after_failed_enter'])
        if (tag, idx) != pos[0]:
            later += 1
    return CaseInfo(
        nontrivial=later >= 1,
        descriptor=[tree, spec['sched']],
        classes=('tree_' + tree['t'], f'positions{min(len(pos), 7)}'),
        metrics={'positions': len(pos), 'runs': tried},
        sample={'tree': tree, 'positions': pos},
    )


def _judge_cycles(spec, obs):
    if obs.exit_exc is not None:
        raise Violation('exit_raised', f'{type(obs.exit_exc).__name__}: {obs.exit_exc}', signature=['exit_raised', type(obs.exit_exc).__name__])
    for k, ci in enumerate(obs.cycle_info):
        if ci['alive_after_exit']:
            raise Violation('alive_after_exit', f"cycle {k}: threads alive after __exit__: {ci['alive_after_exit']}", signature=['alive_after_exit'])


@st.composite
def lifecycle_spec(draw):
    spec = draw(c02.spec_strategy(max_depth=1))
    spec.pop('alloc_bits', None)
    spec['cycles'] = draw(st.sampled_from([2, 2, 3]))
    spec['quiesce'] = draw(st.sampled_from([True, False, False]))
    # second-cycle workload: fresh requests with unbounded timeouts - the re-entered server must answer them
    n0 = len(spec['reqs'])
    k = draw(st.integers(1, 4))
    callers2 = []
    for j in range(k):
        rid = n0 + j
        spec['reqs'][str(rid)] = draw(sv.plan_strategy(spec['tree'], p_fail=0.2, p_delay=0.5))
        callers2.append([{'rid': rid, 'timeout': 'long', 'bp': False, 'think': 0}])
    spec['callers2'] = callers2
    spec['capacity'] = draw(st.sampled_from([1, 1, 2, 4, 32]))
    return spec


def run_lifecycle(spec):
    obs = sv.run_server(spec, cycles=spec['cycles'])
    out = obs.out
    hang_check(out)
    if obs.enter_exc is not None:
        raise Violation('reenter_failed' if obs.cycle_info else 'enter_failed', f'{type(obs.enter_exc).__name__}: {obs.enter_exc}', signature=['enter', type(obs.enter_exc).__name__])
    _judge_cycles(spec, obs)
    if len(obs.cycle_info) != spec['cycles']:
        raise Violation('cycle_missing', f"ran {len(obs.cycle_info)} of {spec['cycles']} enter/exit cycles", signature=['cycle_missing'])
    tree = spec['tree']
    reqs = {int(k): v for k, v in spec['reqs'].items()}
    poisons = [sv.batch_poison_map(tree, reqs, obs.log[ci['log_range'][0] : ci['log_range'][1]]) for ci in obs.cycle_info]
    outstanding = False
    for rec in obs.calls:
        rec['forced'] = poisons[rec['cycle']].get(rec['rid'])
        if rec['cycle'] == 0:
            if rec['kind'] in ('timeout',):
                outstanding = True
            bad = c02.judge_call(rec, tree, reqs, spec['capacity'], {'max_backlog': obs.max_backlog})
        else:
            bad = c02.judge_call(rec, tree, reqs, spec['capacity'], None)
            if bad is None and rec['kind'] in ('timeout', 'backlogfull'):
                bad = ('reentered_server_did_not_answer', f"request {rec['rid']} on the re-entered server: {rec['kind']}")
            if bad:
                bad = ('reentered_' + bad[0] if not bad[0].startswith('reentered') else bad[0], f"cycle {rec['cycle']}: " + bad[1])
        if bad:
            raise Violation(bad[0], bad[1], signature=[bad[0]])
    abandoned = any(s.get('term') == 'abandoned' for s in obs.streams)
    return CaseInfo(
        nontrivial=outstanding or abandoned,
        descriptor=[tree, spec['capacity'], spec['reqs'], spec['callers'], spec['streams'], spec['quiesce'], out.sim.trace[:50]],
        classes=('tree_' + tree['t'], f"cycles{spec['cycles']}", 'quiesced' if spec['quiesce'] else 'left_with_work_in_flight', 'timeouts' if outstanding else 'no_timeouts', 'abandoned_stream' if abandoned else 'no_abandoned_stream', f"cap{min(spec['capacity'], 4)}"),
        metrics={'steps': out.sim.steps},
        sample={'tree': tree, 'capacity': spec['capacity'], 'cycles': spec['cycles'], 'quiesce': spec['quiesce'], 'outcomes': [(r['cycle'], r['rid'], r['kind']) for r in obs.calls][:14]},
    )


# ---------------------------------------------------------------------------- real processes


@st.composite
def real_spec(draw):
    kind = draw(st.sampled_from(['init_fault', 'init_fault', 'abandoned_stream', 'abandoned_stream', 'timed_out_calls', 'lifecycle']))
    n = draw(st.sampled_from([1, 2, 3]))
    a = {'t': 'w', 'tag': 'A', 'n': n, 'pre': False, 'proc': True}
    b = {'t': 'w', 'tag': 'B', 'n': draw(st.sampled_from([1, 2])), 'pre': False, 'proc': draw(st.booleans())}
    tree = draw(st.sampled_from(['single', 'seq', 'seq', 'ens']))
    t = a if tree == 'single' else ({'t': 'seq', 'ch': [a, b]} if tree == 'seq' else {'t': 'ens', 'ff': True, 'ch': [a, b]})
    spec = {'kind': kind, 'tree': t}
    if kind == 'init_fault':
        pos = positions(t)
        spec['fault'] = list(draw(st.sampled_from(pos)))
    elif kind == 'abandoned_stream':
        spec['n_items'] = draw(st.sampled_from([20, 200, 300, 600]))
        spec['item_bytes'] = draw(st.sampled_from([10, 1000, 4000]))
        spec['take'] = draw(st.integers(0, 3))
        spec['delay_ms'] = draw(st.sampled_from([0, 2, 5, 5, 10]))
    elif kind == 'timed_out_calls':
        # requests still inside the first stage when the context is left, with intermediate results beyond an OS pipe buffer
        spec['n_calls'] = draw(st.sampled_from([1, 2, 3]))
        spec['item_bytes'] = draw(st.sampled_from([10, 100_000, 300_000]))
        spec['delay_ms'] = draw(st.sampled_from([150, 300]))
        spec['cycles'] = draw(st.sampled_from([1, 2]))
    else:
        spec['cycles'] = 2
    return spec


def run_real(spec):
    import multiprocessing
    import threading
    import time

    from vf.realproc import live_children, reap_children, run_with_watchdog

    from mpservice.mpserver import Server

    def case():
        res = {}
        base_threads = set(threading.enumerate())

        def census():
            # QueueFeederThread is a daemon helper inside multiprocessing.Queue objects (it ends with its queue), not a worker or helper of the server
            return [t.name for t in threading.enumerate() if t not in base_threads and t.is_alive() and t.name not in ('case-runner',) and not t.name.startswith('QueueFeederThread')]

        tree = spec['tree']
        if spec['kind'] == 'init_fault':
            tree = with_fault(tree, *spec['fault'])
        server = Server(sv.build_servlet(tree), capacity=256)
        plan = {'d': {}, 'f': {}, 'pf': {}, 'r': 0}
        try:
            server.__enter__()
        except BaseException as e:
            res['enter_exc'] = e
            time.sleep(0.3)
            res['children'] = live_children()
            res['threads'] = census()
            return res
        try:
            if spec['kind'] == 'abandoned_stream':
                pad = 'x' * spec['item_bytes']
                splan = dict(plan, pad=pad, d={'A': spec.get('delay_ms', 0) / 1000.0})
                data = [('V', i, splan, ()) for i in range(spec['n_items'])]
                it = server.stream(data, timeout=120)
                got = 0
                for y in it:
                    got += 1
                    if got >= spec['take']:
                        break
                it.close()
            elif spec['kind'] == 'timed_out_calls':
                pad = 'x' * spec['item_bytes']
                for cyc in range(spec['cycles']):
                    if cyc:
                        server.__enter__()
                    tplan = dict(plan, pad=pad, d={'A': spec['delay_ms'] / 1000.0})
                    for i in range(spec['n_calls']):
                        try:
                            server.call(('V', (cyc, i), tplan, ()), timeout=0.02)
                            res.setdefault('not_timed_out', []).append((cyc, i))
                        except TimeoutError:
                            pass
                    if cyc + 1 < spec['cycles']:
                        server.__exit__(None, None, None)
                        time.sleep(0.1)
                        res.setdefault('between', []).append((live_children(), census()))
            else:
                for cyc in range(spec.get('cycles', 1)):
                    if cyc:
                        server.__enter__()
                    y = server.call(('V', cyc, plan, ()), timeout=60)
                    assert sv.unpack(y)[0] == cyc
                    if cyc + 1 < spec.get('cycles', 1):
                        server.__exit__(None, None, None)
        finally:
            t0 = time.monotonic()
            try:
                server.__exit__(None, None, None)
            except BaseException as e:
                res['exit_exc'] = e
            res['exit_s'] = time.monotonic() - t0
        time.sleep(0.2)
        res['children'] = live_children()
        res['threads'] = census()
        return res

    try:
        res = run_with_watchdog(case, budget_s=20, what=f"real server {spec['kind']}", signature=['hang', spec['kind']])
    finally:
        reap_children()
    if spec['kind'] == 'init_fault':
        e = res.get('enter_exc')
        if e is None:
            raise Violation('enter_did_not_raise', f"worker {spec['fault']} raised in __init__ but __enter__ returned", signature=['enter_did_not_raise'])
        if type(e).__name__ != 'InitError':
            raise Violation('wrong_init_error', f'__enter__ raised {type(e).__name__}: {e}', signature=['wrong_init_error'])
        if res['children'] or res['threads']:
            raise Violation('left_running_after_failed_enter', f"after failed __enter__: processes {res['children']} threads {res['threads']}", signature=['left_running_after_failed_enter', 'real'])
    else:
        if res.get('enter_exc') is not None:
            raise Violation('enter_failed', repr(res['enter_exc']), signature=['enter'])
        if res.get('exit_exc') is not None:
            raise Violation('exit_raised', repr(res['exit_exc']), signature=['exit_raised'])
        if res['children'] or res['threads']:
            raise Violation('alive_after_exit', f"after __exit__: processes {res['children']} threads {res['threads']}", signature=['alive_after_exit', 'real'])
        for ch, th in res.get('between', []):
            if ch or th:
                raise Violation('alive_after_exit', f'after the first __exit__ (requests timed out, then exit): processes {ch} threads {th}', signature=['alive_after_exit', 'real'])
    return CaseInfo(
        nontrivial=(spec['kind'] == 'init_fault' and tuple(spec['fault']) != positions(spec['tree'])[0]) or spec['kind'] in ('abandoned_stream', 'timed_out_calls'),
        descriptor=spec,
        classes=('real', spec['kind']),
        sample=spec,
    )


def _warm():
    c02._warm()


RULE = (
    'F1 (fault enumeration): generated thread-servlet trees (<=7 workers); every (worker node, worker index) init-failure position + the no-failure case; __enter__ must raise that worker\'s error and leave no thread running. '
    'F2: enter -> C02-style workload (failures, short timeouts, abandoned streams; optionally left with abandoned work in flight) -> exit -> re-enter the same object -> fresh workload -> exit, 2-3 cycles; exit returns, nothing left, re-entered server answers with the reference result. '
    'F3 (real): ProcessServlet trees: init faults, abandoned streams of 20-600 items of 10 B-4 kB, 1-3 timed-out calls whose 10 B-300 kB intermediate results are still in the first stage at exit (then re-entry), enter/exit/enter. '
    'Non-trivial: failure position not the first worker (F1); >=1 request outstanding/abandoned at exit (F2); distinct by (tree, position set / workload, schedule prefix).'
)

FAMILIES = [
    Family('F1_init_faults', 'sim', tree_only(), run_init_faults, quick=300, thorough=15_000, shards_quick=10, rule=RULE, setup=_warm),
    Family('F2_lifecycle', 'sim', lifecycle_spec(), run_lifecycle, quick=1500, thorough=80_000, shards_quick=10, rule=RULE, setup=_warm),
    Family('F3_processes', 'real', real_spec(), run_real, quick=32, thorough=400, shards_quick=8, shards_thorough=8, rule=RULE, shrink=False),
]
