#!/bin/bash
# Offline, idempotent: make sure hypothesis is importable by /venv/bin/python; optional extras into /verif/.deps
cd "$(dirname "$0")"
mkdir -p .work .deps
/venv/bin/python -c "import hypothesis" 2>/dev/null || \
  /venv/bin/pip install --no-index --find-links /opt/veriftools/wheels hypothesis >/dev/null 2>&1 || \
  /venv/bin/pip install --no-index --find-links /opt/veriftools/wheels --target .deps hypothesis >/dev/null 2>&1
PYTHONPATH=.deps /venv/bin/python -c "import atheris" 2>/dev/null || \
  /venv/bin/pip install --no-index --find-links /opt/veriftools/wheels --target .deps atheris >/dev/null 2>&1 || true
PYTHONPATH=.deps /venv/bin/python -c "import jsonschema" 2>/dev/null || \
  /venv/bin/pip install --no-index --find-links /opt/veriftools/wheels --target .deps jsonschema >/dev/null 2>&1 || true
PYTHONPATH="$PWD:$PWD/.deps" /venv/bin/python -c "import hypothesis, mpservice; print('setup ok: hypothesis', hypothesis.__version__, 'mpservice', mpservice.__file__)"
# scheduler self-test (litmus programs with known outcome sets, ~20 s); informational: a failure is printed loudly but does not fail setup
PYTHONHASHSEED=0 PYTHONPATH="$PWD" /venv/bin/python tools/selftest.py || echo "WARNING: deterministic-scheduler self-test FAILED - results of the simulated checks are not trustworthy"
exit 0
