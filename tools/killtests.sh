#!/bin/bash
for pid in $(pgrep -f "python -m pytest"); do kill -9 $pid 2>/dev/null; done
for pid in $(pgrep -f "from multiprocessing"); do kill -9 $pid 2>/dev/null; done
exit 0
