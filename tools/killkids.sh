#!/bin/bash
# kill stray python children of experiments (spawned workers, resource trackers)
for pid in $(pgrep -f "from multiprocessing"); do kill -9 $pid 2>/dev/null; done
exit 0
