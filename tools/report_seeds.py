#!/usr/bin/env python3
"""Prints the markdown tables of DESIGN.md section 10.7 from seeded/*/meta.json and tools/mutant_results.json."""
import glob
import json
import os

ROOT = os.path.dirname(os.path.dirname(os.path.abspath(__file__)))
print('| seeded change | property | what it needs to manifest (from the sub-agent note, first lines) | demo fails with / passes without | existing tests pass | caught by |')
print('|---|---|---|---|---|---|')
for f in sorted(glob.glob(os.path.join(ROOT, 'seeded', '*', 'meta.json'))):
    m = json.load(open(f))
    need = ' '.join((m.get('needs_to_manifest') or '').split())[:260]
    v = m.get('check', {}).get('violations', [])
    fam = next((x.strip() for x in v if x.strip().startswith('family=')), '')
    caught = f"`./check {m['property']} quick`: {fam[:110]}" if m.get('detected') else '**missed**'
    print(f"| {m['id']} | {m['property']} | {need} | {m.get('demo_mutated_fails')} / {m.get('demo_clean_passes')} | {m.get('tests_pass_with_change')} | {caught} |")
p = os.path.join(ROOT, 'tools', 'mutant_results.json')
if os.path.exists(p):
    res = json.load(open(p))
    print()
    print('| own mutant | property | change | quick check |')
    print('|---|---|---|---|')
    for k in sorted(res):
        r = res[k]
        print(f"| {k} | {r['prop']} | {r['desc'][:150]} | {r['result']} |")
