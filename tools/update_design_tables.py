#!/usr/bin/env python3
"""Replaces the table of seeded changes in DESIGN.md section 10.7 by the current output of tools/report_seeds.py (first table only)."""
import os
import subprocess

ROOT = os.path.dirname(os.path.dirname(os.path.abspath(__file__)))
out = subprocess.run(['python3', os.path.join(ROOT, 'tools', 'report_seeds.py')], capture_output=True, text=True, check=True).stdout.split('\n\n')[0].rstrip('\n')
p = os.path.join(ROOT, 'DESIGN.md')
lines = open(p).read().split('\n')
a = next(i for i, l in enumerate(lines) if l.startswith('| seeded change |'))
b = a
while b < len(lines) and lines[b].startswith('|'):
    b += 1
lines[a:b] = out.split('\n')
open(p, 'w').write('\n'.join(lines))
print(f'replaced {b - a} table lines by {len(out.splitlines())}')
