#!/venv/bin/python
"""Litmus programs with known outcome sets for the deterministic scheduler (DESIGN 2.1 self-test).

Guards the claim that the scheduler neither invents nor (in the small) misses behaviours:
  1. unlocked read-modify-write loses an update under line events for some schedule, and never with a lock;
  2. lock-order inversion reaches the `deadlock` verdict for some schedule, and never with a consistent order;
  3. queue.Queue producer/consumer delivers in order under every tape of length <= 6 over {0,1,2} (exhaustive);
  4. timed waits expire at the exact virtual instant;
  5. the same schedule reproduces the same decision trace.
"""
import itertools
import os
import sys

ROOT = os.path.dirname(os.path.dirname(os.path.abspath(__file__)))
sys.path.insert(0, ROOT)

from vf import detsched as ds  # noqa: E402

ds.install()
import queue  # noqa: E402
import threading  # noqa: E402
import time  # noqa: E402

from vf import linemon  # noqa: E402
from vf.core import run_sim  # noqa: E402

threading.excepthook = lambda a: None


def sparse_schedules(n1, n2):
    """all schedules with one preemption at a branching index < n1 and all with two at indices < n2 (choices 1, 2)"""
    yield {'kind': 'default'}
    for i in range(n1):
        for c in (1, 2):
            yield {'kind': 'sparse', 'pre': [[i, c]]}
    for i in range(n2):
        for j in range(i + 1, n2):
            for c in (1, 2):
                for d in (1, 2):
                    yield {'kind': 'sparse', 'pre': [[i, c], [j, d]]}


def rmw_scenario(locked):
    box = {'n': 0}
    lock = threading.Lock()

    def inc():
        for _ in range(2):
            if locked:
                with lock:
                    v = box['n']
                    v = v + 1
                    box['n'] = v
            else:
                v = box['n']
                v = v + 1
                box['n'] = v

    def fn():
        ts = [threading.Thread(target=inc) for _ in range(2)]
        for t in ts:
            t.start()
        for t in ts:
            t.join()
        return box['n']

    return fn


def test_lost_update():
    linemon.install([os.path.abspath(__file__)])
    outcomes_unlocked, outcomes_locked = set(), set()
    for sched in sparse_schedules(60, 36):
        for locked, bag in ((False, outcomes_unlocked), (True, outcomes_locked)):
            out = run_sim(rmw_scenario(locked), sched, lines=True)
            assert out.verdict is None and out.exc is None, (out.verdict, out.exc)
            bag.add(out.result)
    assert outcomes_locked == {4}, outcomes_locked
    assert 4 in outcomes_unlocked and min(outcomes_unlocked) < 4, outcomes_unlocked
    return f'unlocked outcomes {sorted(outcomes_unlocked)}, locked {sorted(outcomes_locked)}'


def test_lock_inversion():
    def scenario(inverted):
        a, b = threading.Lock(), threading.Lock()

        def t1():
            with a:
                with b:
                    pass

        def t2():
            first, second = (b, a) if inverted else (a, b)
            with first:
                with second:
                    pass

        def fn():
            ts = [threading.Thread(target=t1), threading.Thread(target=t2)]
            for t in ts:
                t.start()
            for t in ts:
                t.join()
            return True

        return fn

    verdicts_inv, verdicts_ok = set(), set()
    for sched in sparse_schedules(40, 40):
        verdicts_inv.add(run_sim(scenario(True), sched).verdict)
        verdicts_ok.add(run_sim(scenario(False), sched).verdict)
    assert 'deadlock' in verdicts_inv and None in verdicts_inv, verdicts_inv
    assert verdicts_ok == {None}, verdicts_ok
    return f'inverted order verdicts {verdicts_inv}, consistent order {verdicts_ok}'


def test_queue_fifo_exhaustive():
    def fn():
        q = queue.Queue(2)
        got = []

        def prod():
            for i in range(4):
                q.put(i)
            q.put(None)

        def cons():
            while True:
                x = q.get()
                if x is None:
                    return
                got.append(x)

        ts = [threading.Thread(target=prod), threading.Thread(target=cons)]
        for t in ts:
            t.start()
        for t in ts:
            t.join()
        return got

    n = 0
    traces = set()
    for tape in itertools.product([0, 1, 2], repeat=6):
        out = run_sim(fn, {'kind': 'tape', 'tape': list(tape)})
        assert out.verdict is None and out.result == [0, 1, 2, 3], (tape, out.verdict, out.result)
        traces.add(tuple(out.sim.trace))
        n += 1
    assert len(traces) > 10, len(traces)
    return f'{n} tapes, {len(traces)} distinct interleavings, always in order'


def test_virtual_time_exact():
    def fn():
        t0 = time.monotonic()
        ev = threading.Event()
        r1 = ev.wait(0.25)
        t1 = time.monotonic()
        time.sleep(1.5)
        t2 = time.monotonic()
        q = queue.Queue()
        try:
            q.get(timeout=0.125)
        except queue.Empty:
            pass
        t3 = time.monotonic()
        return r1, t1 - t0, t2 - t1, t3 - t2

    out = run_sim(fn, {'kind': 'default'})
    r1, a, b, c = out.result
    assert r1 is False and abs(a - 0.25) < 1e-9 and abs(b - 1.5) < 1e-9 and abs(c - 0.125) < 1e-9, out.result
    return f'waits took {a}, {b}, {c} virtual seconds'


def test_replay_determinism():
    def fn():
        q = queue.Queue(1)
        out = []

        def w(k):
            for i in range(3):
                q.put((k, i))

        def r():
            for _ in range(6):
                out.append(q.get())

        ts = [threading.Thread(target=w, args=(0,)), threading.Thread(target=w, args=(1,)), threading.Thread(target=r)]
        for t in ts:
            t.start()
        for t in ts:
            t.join()
        return out

    sched = {'kind': 'tape', 'tape': [1, 2, 0, 3, 1, 0, 2, 2, 1, 3, 0, 1, 2, 3, 1, 1, 2, 0, 0, 3]}
    runs = [run_sim(fn, sched) for _ in range(3)]
    assert runs[0].sim.trace == runs[1].sim.trace == runs[2].sim.trace and runs[0].result == runs[2].result
    return f'trace of {len(runs[0].sim.trace)} decisions reproduced 3x'


def test_wasted_notify():
    """A notify() issued at the instant a timed waiter expires can be consumed by that (already expired) waiter: real behaviour of
    threading.Condition, reachable only through the schedule's `flips` bits (and never without them)."""

    def fn():
        cond = threading.Condition()
        res = {}

        def a():
            with cond:
                res['a'] = cond.wait(0.1)

        def b():
            with cond:
                res['b'] = cond.wait(10.0)
                res['b_t'] = time.monotonic()

        def n():
            time.sleep(0.1)
            with cond:
                cond.notify()

        t0 = time.monotonic()
        ts = [threading.Thread(target=f) for f in (a, b, n)]
        for t in ts:
            t.start()
        for t in ts:
            t.join()
        return res['a'], res['b'], round(res['b_t'] - t0, 3)

    seen = {False: set(), True: set()}
    for flips in ([], [1], [0, 1], [1, 1]):
        for sched in sparse_schedules(30, 12):
            out = run_sim(fn, dict(sched, flips=flips) if flips else sched)
            assert out.verdict is None and out.exc is None, (out.verdict, out.exc)
            seen[bool(flips)].add(out.result)
    wasted = (False, False, 10.0)
    assert wasted in seen[True], seen[True]
    assert wasted not in seen[False], seen[False]
    assert all(r[0] or r[1] for r in seen[False]), seen[False]
    return f'without flips {sorted(seen[False])}; with flips additionally {sorted(seen[True] - seen[False])}'


def test_spinning():
    """busy polling on something a sleeping thread will do terminates (time passes while spinning); polling on something that
    never happens is reported as a livelock, not as an exhausted budget"""

    def scenario(never):
        def fn():
            box = {'done': False}
            lock = threading.Lock()

            def worker():
                time.sleep(0.5)
                if not never:
                    with lock:
                        box['done'] = True

            t = threading.Thread(target=worker)
            t.start()
            n = 0
            while True:
                with lock:
                    if box['done']:
                        break
                n += 1
            t.join()
            return n

        return fn

    a = run_sim(scenario(False), {'kind': 'default'}, max_steps=300_000)
    assert a.verdict is None and a.result > 1000, (a.verdict, a.result)
    b = run_sim(scenario(True), {'kind': 'default'}, max_steps=300_000)
    assert b.verdict == 'livelock', b.verdict
    return f'polling loop ended after {a.result} polls once the sleeper woke; endless polling -> {b.verdict}'


def test_alloc_is_legal():
    """vf/alloc.py keeps the one promise id() makes, for generated keep/drop histories and recycle bits"""
    from hypothesis import given, seed, settings
    from hypothesis import strategies as st

    from vf.alloc import Alloc

    class Obj:
        pass

    stats = {'cases': 0, 'recycled': 0}

    @seed(1)
    @settings(max_examples=400, deadline=None, database=None)
    @given(st.lists(st.integers(0, 1), max_size=8), st.lists(st.tuples(st.sampled_from(['new', 'drop', 'again']), st.integers(0, 7)), max_size=60))
    def prop(bits, ops):
        a = Alloc(bits)
        live = []  # (obj, id)
        ever = set()
        for op, k in ops:
            if op == 'new':
                o = Obj()
                i = a(o)
                assert all(i != j for _, j in live), 'two live objects share an id'
                live.append((o, i))
                ever.add(i)
            elif live and op == 'drop':
                live.pop(k % len(live))
            elif live:
                o, i = live[k % len(live)]
                assert a(o) == i, 'id of a live object changed'
        stats['cases'] += 1
        stats['recycled'] += a.recycled
        if not any(bits):
            assert a.recycled == 0

    prop()
    assert stats['recycled'] > 100, stats
    return f"{stats['cases']} histories, {stats['recycled']} recycled ids, never two live objects with one id, ids stable"


def main():
    ok = True
    for t in (test_alloc_is_legal, test_spinning, test_wasted_notify, test_queue_fifo_exhaustive, test_lock_inversion, test_lost_update, test_virtual_time_exact, test_replay_determinism):
        try:
            print(f'selftest {t.__name__}: ok - {t()}')
        except BaseException as e:
            ok = False
            print(f'selftest {t.__name__}: FAILED - {type(e).__name__}: {e}')
    return 0 if ok else 1


if __name__ == '__main__':
    rc = main()
    sys.stdout.flush()
    os._exit(rc)
