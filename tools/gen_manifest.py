#!/usr/bin/env python3
"""Generates MANIFEST.json from the table below (kept in one place so it stays valid while checks are added)."""
import json
import os

ROOT = os.path.dirname(os.path.dirname(os.path.abspath(__file__)))

SIM_NOTE = (
    'Held on everything explored, never absence. Thread schedules are owned by the harness (vf/detsched.py): preemption only at lock '
    'operations, blocking calls, thread start/join, sleeps (and source lines of selected files where stated); stdlib C primitives are replaced by '
    "CPython's own pure-Python twins (_PyRLock, _PySimpleQueue) and a virtual clock (DESIGN 2.3, 7). Reference models in props/ are trusted."
)
REAL_NOTE = (
    'Held on everything explored, never absence. Real processes: the OS schedule is sampled, not owned; hangs are decided by a wall-clock watchdog '
    'that must trip 3 times in a row (otherwise inconclusive). Reference models in props/ are trusted.'
)

T_SIM = 'property-based testing (Hypothesis) over generated inputs AND generated thread schedules run by a deterministic scheduler with virtual clock; oracle: '
T_REAL = 'property-based testing (Hypothesis) over generated inputs/histories/fault points against real processes; oracle: '

CHECKS = {
    'C01': ('exploration', T_SIM + 'sequential map reference + worker call-log multiset; process executor sampled with real processes', SIM_NOTE,
            'generated inputs x configurations x owned completion orders/schedules compared with the sequential map (order, pairing, exactly-once)'),
    'C05': ('exploration', T_SIM + 'sequential reference interpreter for the transcript, scheduler deadlock/horizon verdicts for hangs, live-thread census at close for leaks', SIM_NOTE,
            'generated pipelines x stop/failure positions x owned schedules; sync, async, SyncIter and AsyncIter variants; process executor with real worker processes; abandoned iterators freed by the cyclic garbage collector in fresh interpreters (ordinary context / inside threading.py critical section)'),
    'C08': ('exploration', T_SIM + 'invariants pulled-handed <= bound and running <= concurrency evaluated at every scheduling step', SIM_NOTE,
            'generated chains x speed ratios (incl. consumer stalls beyond internal timeouts) x lengths (incl. unbounded sources) x owned schedules; bounds are observed to be attained; process executor: overlap of (pid, start, end) stamps taken inside real worker processes'),
    'C12': ('fault_enumeration', T_SIM + 'expectation table per ending for mpservice.threading.Thread with accessors racing start-up and the running target (exact virtual timeouts); ' + T_REAL + 'the full ending x kill-signal x phase table for mpservice Process is enumerated, accessor orders generated; expectation table for orderly endings, cross-accessor consistency predicate for kills and unpicklable results, every accessor must return', SIM_NOTE + ' ' + REAL_NOTE,
            'complete ending x kill x phase table (32 cells) with generated values, exception classes and accessor orders (Process), plus generated perturbations: child lingering after its outcome was sent, reaping thread delayed after waitpid, Process object collected inside threading.py critical section; generated endings x accessor sequences x owned schedules (Thread)'),
    'C13': ('exploration', T_REAL + 'reference-count model (live proxies anywhere + pickles in transit, cascade on container destruction) compared eventually with the server debug_info after every operation; live proxies usable; /dev/shm block exists iff referenced; empty server after cleanup', REAL_NOTE,
            'generated histories (create, pickle, unpickle once, cross-process transfers via a helper client process, nesting in hosted containers, managed() returns, Process arguments kept or handed over, deletions, helper exit) against one ServerProcess; a step that blocks on three fresh servers is a violation'),
    'C14': ('exploration', T_REAL + 'differential against a local twin object: return values (type and value), exception type/args + server-side traceback, hosted state through every proxy after each step, managed() returns are live proxies', REAL_NOTE,
            'generated call histories over hosted list/dict/Value/Namespace/registered class through proxies in the main thread, a second thread and a helper process, incl. raising calls (also of types the manager machinery itself raises, and unpicklable ones followed by the next call), the same hosted value wrapped twice, and dropping/re-obtaining all proxies'),
    'C15': ('exploration', 'property-based testing (Hypothesis) over generated exception classes/args/traceback depths/cause chains/hop sequences/EnsembleError nestings; oracle: round-trip clauses after every hop (class, args, state, is_remote_exception, first-hop traceback text contained; identical text when only forwarded)', 'Held on everything explored, never absence. Hops are pickle round trips inside one process; the exception zoo is restricted by construction to classes that round-trip under plain pickle.',
            'generated exception zoo x hop sequences (forward / re-raise) x nesting in EnsembleError'),
    'C16': ('exploration', T_SIM + 'differential sync vs async on identical inputs, both also against the sequential reference', SIM_NOTE,
            'fifo_stream/async_fifo_stream and the four parmap variants on identical generated inputs, durations, preprocessor failures, submission failures and flags; Server vs AsyncServer on identical request histories (legality incl. no answer after the deadline)'),
    'C02': ('exploration', T_SIM + 'reference evaluator of the generated servlet tree; legality rules for TimeoutError/ServerBacklogFull; generated object-identity allocator', SIM_NOTE,
            'generated servlet trees x request histories (failures, fail-fast errors, short timeouts) x concurrent callers and streams x owned schedules'),
    'C04': ('exploration', T_SIM + 'reference evaluator with generated fault sets; exception class+args+failure-site function name in the traceback text; exact batch-failure sets from the instrumented call log; real-process family for the process boundary', SIM_NOTE,
            'generated fault subsets/sites/classes x servlet trees x batching x concurrent callers x owned schedules (+ sampled ProcessServlet runs)'),
    'C09': ('exploration', T_SIM + 'well-formedness predicates over the instrumented Worker.call log, exactly-one-batch membership, exact batch-wait bound in virtual time', SIM_NOTE,
            'generated arrival patterns x batch_size x batch_wait_time x workers x preprocess outcomes x in-worker thread pool x owned schedules'),
    'C06': ('exploration', T_SIM + 'invariant backlog<=capacity at every scheduling step; exact rejection/waiting rules in virtual time; idle backlog == 0; plain and batching workers; workers returning generated values incl. None/falsy (every call returns the planned value, slot returned)', SIM_NOTE,
            'generated caller scripts (backpressure on/off, short/long timeouts, failures, abandoned streams) x capacity 1-4 x owned schedules'),
    'C07': ('exploration', T_SIM + 'abandoned call = TimeoutError at/after deadline or own reference result; probe requests answered correctly afterwards; gather thread alive; clean exit', SIM_NOTE,
            'timeouts equal to / bracketing the service time, early-closed streams, bounded forced clock advances and line-granular preemption in _server.py'),
    'C03': ('exploration', 'property-based testing (Hypothesis): type-directed generated operator programs and inputs run under the deterministic scheduler (default schedule + short tapes); oracle: independent lazy reference interpreter (outputs, terminal exception, peek transcript), multiset for shuffle, pull counters for laziness', SIM_NOTE,
            'generated programs (0-6 operators) x inputs x consumption modes against a reference interpreter; laziness via an instrumented source'),
    'C10': ('exploration', T_SIM + 'each fork == source prefix with the source ending (type+args); pull counter; window invariant pulled-slowest <= buffer_size+2 at every step; deadlock/horizon verdicts; line-granular preemption inside _tee.py', SIM_NOTE,
            '2-3 forks x buffer sizes x source lengths (0, 1, <=window, >window) x source failure positions (generator sources and iterator objects that keep working after raising) x owned schedules incl. preemption between any two lines of the fork step'),
    'C11': ('fault_enumeration', T_SIM + 'every init-failure position of every generated servlet tree is enumerated (exhaustive per tree); enter must raise that error and leave nothing running; lifecycle histories with re-entry judged by the reference evaluator; real-process family for ProcessServlet incl. abandoned streams', SIM_NOTE + ' ' + REAL_NOTE,
            'complete enumeration of (servlet, worker index) init-failure positions per generated tree; generated workloads x enter/exit/re-enter cycles x owned schedules; sampled real processes incl. abandoned streams and timed-out calls whose 10 B-300 kB results are still in flight at exit'),
    'C17': ('exploration', T_SIM + 'per-round multiset equality, no cross-round leak, termination of every party (deadlock/horizon verdicts); exact stop latency of ResponsiveQueue in virtual time; sampled real threads/processes with a stop event', SIM_NOTE + ' ' + REAL_NOTE,
            'm x n parties x queue bounds x rounds separated by renew (optionally with next-round puts and late consumers before renew) x owned schedules incl. line-granular preemption inside queue.py; stop requests at generated virtual moments'),
    'C18': ('exploration', 'property-based testing (Hypothesis): framing round trip write_record -> generated chunking -> read_record (pure), and generated request sets / handler latencies / connection counts / payload sizes / impatient callers / request-id allocator bits (legal id() stand-in that recycles freed ids) against a real unix-socket server and real FIFOs; oracle: payload equality at handler and requester, response token == request token, exception class/args/remote traceback, stream and pipe order', REAL_NOTE,
            'generated payloads (newlines, header look-alikes, empty, multi-megabyte, nested) x chunk boundaries; concurrent tokenised requests over 1-4 connections with generated latencies, staggered bursts of 40-120 requests, impatient callers, handlers failing with their own or with transport-typed exceptions; FIFO object sequences in both directions'),
    'C20': ('exploration', T_REAL + 'a collecting handler on the parent root logger must hold exactly the emitted records that pass the parent levels in force at the time (generated root and named-logger levels, optionally changed once while the child runs), once each, in emission order; join()/result() must return (watchdog, 3x rule)', REAL_NOTE,
            'generated record counts (0-2000) and sizes (1 B-64 kB), logger names/levels, position of the last record, target endings, parent handler speed; Process / ProcessServlet worker / ProcessPoolExecutor; records still unhandled when result() returns'),
    'C19': ('exploration', T_SIM + 'validity predicates over the (virtual time, batch) log: partition, sizes, exact deadline rule with stall budget 0', SIM_NOTE,
            'generated arrival-time sequences x batch_size x wait x marker kind x schedules; timing checked exactly in virtual time'),
}

ENGINES = [
    {'name': 'detsched', 'path': 'vf/detsched.py', 'serves_properties': ['C01', 'C02', 'C04', 'C05', 'C06', 'C07', 'C08', 'C09', 'C10', 'C11', 'C12', 'C16', 'C17', 'C19'],
     'kind_free_text': 'deterministic scheduler for real Python threads + virtual clock + scheduler-aware asyncio loop; schedules are Hypothesis values (tape / PCT)'},
    {'name': 'realproc', 'path': 'vf/realproc.py', 'serves_properties': ['C01', 'C12', 'C13', 'C14', 'C18', 'C20'],
     'kind_free_text': 'real-process case runner with watchdog + 3x hang confirmation'},
    {'name': 'runner', 'path': 'vf/runner.py', 'serves_properties': [], 'kind_free_text': 'sharding over 16 cores, seeds, evidence, replay, known findings'},
]

NOT_APPLICABLE = {}


def main():
    props = [json.loads(l) for l in open(os.path.join(ROOT, 'properties.jsonl'))]
    checks = []
    na = []
    for p in props:
        pid = p['id']
        if pid in CHECKS:
            level, technique, note, text = CHECKS[pid]
            checks.append(
                {
                    'property_id': pid,
                    'quick_cmd': f'./check {pid} quick',
                    'thorough_cmd': f'./check {pid} thorough',
                    'evidence_file': f'evidence/{pid}.json',
                    'replay_cmd_template': f'./check {pid} --replay {{path}}',
                    'engine': 'detsched' if 'deterministic scheduler' in technique else 'realproc',
                    'level_claimed': {'category': level, 'text': text, 'design_ref': f'DESIGN.md section 4, {pid}'},
                    'level_note': note,
                    'technique': technique,
                }
            )
        else:
            na.append({'property_id': pid, 'reason': NOT_APPLICABLE.get(pid, 'check not built yet in this round (planned, see DESIGN.md section 4); not claimed until it is registered here')})
    m = {
        'version': 1,
        'setup_cmd': './setup.sh',
        'hooks': {
            'guard': 'MPSERVICE_VERIF',
            'enable': 'no hooks in /repo: all instrumentation is harness-side (stdlib primitives patched before import); the runner exports MPSERVICE_VERIF=1 for uniformity',
            'baseline_off_cmd': 'cd /repo && /venv/bin/python -m pytest -ra -q -p no:cacheprovider --timeout=900 --continue-on-collection-errors',
            'source_commits': [],
            'add_only': True,
        },
        'engines': ENGINES,
        'checks': checks,
        'not_applicable': na,
        'notes': 'Genuine defects repaired in /repo are "fix:" commits listed in known_findings.json (fixed); open findings are listed there too.',
    }
    with open(os.path.join(ROOT, 'MANIFEST.json'), 'w') as f:
        json.dump(m, f, indent=1)
    print('checks:', [c['property_id'] for c in checks], 'not claimed:', [n['property_id'] for n in na])


if __name__ == '__main__':
    main()
