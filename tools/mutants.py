#!/venv/bin/python
"""Sensitivity protocol: apply one seeded mutant to a scratch copy of /repo/src (outside /repo and /verif), run the
property's check against it (VERIF_REPO_SRC + PYTHONPATH), expect exit 1, delete the scratch copy.

usage: tools/mutants.py [--tier quick] [--scale S] [ids or property ids ...]      (no args: all)
       tools/mutants.py --patch <file.diff> <Cxx> [more Cxx]                    (run checks against a diff)
"""
import json
import os
import shutil
import subprocess
import sys
import tempfile
import time

ROOT = os.path.dirname(os.path.dirname(os.path.abspath(__file__)))
sys.path.insert(0, ROOT)

from tools.mutant_list import MUTANTS  # noqa: E402


def run_check(src, prop, tier, scale, seed='1'):
    env = dict(os.environ)
    env['VERIF_REPO_SRC'] = src
    env['PYTHONPATH'] = src
    env['VERIF_SCALE'] = str(scale)
    env['VERIF_SEED'] = seed
    env['VERIF_EVIDENCE_DIR'] = os.path.join(os.path.dirname(src), 'evidence')
    t0 = time.time()
    p = subprocess.run([os.path.join(ROOT, 'check'), prop, tier], env=env, capture_output=True, text=True)
    return p.returncode, p.stdout + p.stderr, time.time() - t0


def main(argv):
    tier = 'quick'
    scale = 1.0
    patch = None
    args = []
    i = 0
    while i < len(argv):
        if argv[i] == '--tier':
            tier = argv[i + 1]
            i += 2
        elif argv[i] == '--scale':
            scale = float(argv[i + 1])
            i += 2
        elif argv[i] == '--patch':
            patch = os.path.abspath(argv[i + 1])
            i += 2
        else:
            args.append(argv[i])
            i += 1
    results = []
    if patch:
        d = tempfile.mkdtemp(prefix='mut_', dir='/tmp')
        try:
            shutil.copytree('/repo/src', os.path.join(d, 'src'))
            r = subprocess.run(['patch', '-p1', '-d', d, '-i', patch], capture_output=True, text=True)
            if r.returncode != 0:
                print('PATCH FAILED', r.stdout, r.stderr)
                return 2
            for prop in args:
                rc, out, dt = run_check(os.path.join(d, 'src'), prop, tier, scale)
                det = 'DETECTED' if rc == 1 else ('HARNESS-ERROR' if rc == 2 else 'missed')
                print(f'{os.path.basename(patch)} {prop}: {det} rc={rc} {dt:.0f}s')
                for line in out.splitlines():
                    if line.startswith(('VIOLATION', '  family', '  detail', 'HARNESS')):
                        print('   ', line[:300])
        finally:
            shutil.rmtree(d, ignore_errors=True)
        return 0
    sel = [m for m in MUTANTS if not args or m['id'] in args or m['prop'] in args]
    for m in sel:
        d = tempfile.mkdtemp(prefix='mut_', dir='/tmp')
        try:
            shutil.copytree('/repo/src', os.path.join(d, 'src'))
            path = os.path.join(d, 'src', 'mpservice', m['file'])
            s = open(path).read()
            if s.count(m['old']) != 1:
                print(f"{m['id']}: anchor found {s.count(m['old'])} times - SKIPPED")
                results.append((m['id'], 'anchor'))
                continue
            open(path, 'w').write(s.replace(m['old'], m['new']))
            rc, out, dt = run_check(os.path.join(d, 'src'), m['prop'], tier, scale)
            det = 'DETECTED' if rc == 1 else ('HARNESS-ERROR' if rc == 2 else 'missed')
            viol = [line for line in out.splitlines() if line.startswith('  family')]
            print(f"{m['id']} [{m['prop']}] {m['desc']}: {det} ({dt:.0f}s) {viol[0][:160] if viol else ''}")
            if rc == 2:
                print(out[-1500:])
            results.append((m['id'], det))
        finally:
            shutil.rmtree(d, ignore_errors=True)
    try:
        out_path = os.path.join(ROOT, 'tools', 'mutant_results.json')
        prev = json.load(open(out_path)) if os.path.exists(out_path) else {}
        for m in sel:
            r = dict(results).get(m['id'])
            if r:
                prev[m['id']] = {'prop': m['prop'], 'desc': m['desc'], 'result': r, 'tier': tier}
        json.dump(prev, open(out_path, 'w'), indent=1, sort_keys=True)
    except Exception as e:
        print('could not write mutant_results.json', e)
    missed = [r for r in results if r[1] != 'DETECTED']
    print(f'{len(results) - len(missed)}/{len(results)} detected; not detected: {missed}')
    return 0 if not missed else 1


if __name__ == '__main__':
    sys.exit(main(sys.argv[1:]))
