"""Seeded mutants for the sensitivity protocol (each compiles; designed to pass the repo's own tests)."""

S = 'streamer/_streamer.py'
SA = 'streamer/_streamer_async.py'

MUTANTS = [
    # ---------------- C01
    dict(id='C01-m1', prop='C01', file=S, desc='under return_x an exception result is paired with itself instead of its input when more results are queued',
         old="""                if return_exceptions:
                    # TODO: think about when `e` is a "remote exception".
                    y = e""",
         new="""                if return_exceptions:
                    # TODO: think about when `e` is a "remote exception".
                    y = e
                    x = y if return_x and not tasks.empty() else x"""),
    dict(id='C01-m2', prop='C01', file='_queues.py', desc='SingleLane.get pops from the right when queue is full (LIFO at wrap-around)',
         old="""            z = self._queue.popleft()
            self._not_full.notify()""",
         new="""            z = self._queue.pop() if 1 < self.maxsize <= len(self._queue) else self._queue.popleft()
            self._not_full.notify()"""),
    dict(id='C01-m3', prop='C01', file=S, desc='feeder calls func on the raw element when preprocessor is an extractor and queue is full',
         old="""                    else:
                        fut = func(xx, **func_kwargs)
                q.put((x, fut))""",
         new="""                    else:
                        fut = func(xx if not q.full() else x, **func_kwargs)
                q.put((x, fut))"""),
    dict(id='C01-m4', prop='C01', file=S, desc='feeder re-submits the element when put had to wait (duplicate call)',
         old="""                q.put((x, fut))
                # The size of the queue `q` regulates how many
                # concurrent calls to `func` there can be.
        except BaseException as e:""",
         new="""                if q.full() and preprocessor is None and fut.done():
                    fut = func(x, **func_kwargs)
                q.put((x, fut))
                # The size of the queue `q` regulates how many
                # concurrent calls to `func` there can be.
        except BaseException as e:"""),
    # ---------------- C05
    dict(id='C05-m1', prop='C05', file=S, desc="fifo_stream finally no longer drains the queue before joining the feeder",
         old="""    finally:
        while not tasks.empty():
            z = tasks.get()
            if z is None:
                break
            if isinstance(z, BaseException):
                break
            _, t = z
            t.cancel()
        feeder.join()""",
         new="""    finally:
        feeder.join()"""),
    dict(id='C05-m2', prop='C05', file=S, desc='to_stop not set on GeneratorExit (only on Exception)',
         old="""    except BaseException:  # in particular, include GeneratorExit
        to_stop.set()
        raise
    finally:
        while not tasks.empty():
            z = tasks.get()""",
         new="""    except Exception:
        to_stop.set()
        raise
    finally:
        while not tasks.empty():
            z = tasks.get()"""),
    dict(id='C05-m3', prop='C05', file=S, desc='Buffer worker swallows the source exception (ends stream normally)',
         old="""        except BaseException as e:  # incl. `StopRequested` from a stoppable source
            q.put(STOPPED)
            q.put(e)
            # raise""",
         new="""        except BaseException as e:  # incl. `StopRequested` from a stoppable source
            q.put(FINISHED)
            # raise"""),
    dict(id='C05-m4', prop='C05', file=S, desc='ParmapperAsync does not stop its loop thread when closed early (only on exhaustion)',
         old="""        finally:
            to_stop.set()
            worker.join()""",
         new="""        except GeneratorExit:
            raise
        else:
            to_stop.set()
            worker.join()"""),
    dict(id='C05-m5', prop='C05', file=SA, desc='AsyncBuffer._finalize drains only once again (regression of D6 in async twin)',
         old="""        while worker.is_alive():
            # The worker may be blocked in `put` on a full queue, and after
            # that it still needs room for the end marker (or the `STOPPED`
            # marker plus the exception object). Keep making room until it exits.
            try:
                tasks.get(timeout=0.01)
            except queue.Empty:
                pass
        worker.join()
        self._stopped = None

    async def __aiter__(self):""",
         new="""        while not tasks.empty():
            tasks.get()
        worker.join()
        self._stopped = None

    async def __aiter__(self):"""),
    # ---------------- C08
    dict(id='C08-m1', prop='C08', file=S, desc='fifo_stream hand-off queue one slot larger',
         old="    tasks = SingleLane(capacity + 1)", new="    tasks = SingleLane(capacity + 2)"),
    dict(id='C08-m2', prop='C08', file=S, desc='fifo_stream hand-off queue unbounded',
         old="    tasks = SingleLane(capacity + 1)", new="    tasks = SingleLane(0)"),
    dict(id='C08-m3', prop='C08', file=S, desc='thread pool twice the concurrency',
         old="""            executor = ThreadPoolExecutor(
                self._concurrency,
                initializer=self._executor_initializer,
                initargs=self._executor_init_args,
                thread_name_prefix=self._name + '-thread',""",
         new="""            executor = ThreadPoolExecutor(
                self._concurrency * 2,
                initializer=self._executor_initializer,
                initargs=self._executor_init_args,
                thread_name_prefix=self._name + '-thread',"""),
    dict(id='C08-m4', prop='C08', file=S, desc='Buffer queue one slot larger',
         old="        self._tasks = SingleLane(self.maxsize)\n        self._worker = Thread(target=self._run_worker, name='Buffer-worker-thread')",
         new="        self._tasks = SingleLane(self.maxsize + 1)\n        self._worker = Thread(target=self._run_worker, name='Buffer-worker-thread')"),
    dict(id='C08-m5', prop='C08', file='_queues.py', desc='SingleLane.put waits only once: after a timeout-less wake-up it appends even if still full (if instead of while is original; here: skip wait when exactly full+0 and reader is mid-get)',
         old="""            if 0 < self.maxsize <= len(self._queue):
                if not block:
                    raise Full
                if not self._not_full.wait(timeout=timeout):
                    raise Full
            self._queue.append(item)""",
         new="""            if 0 < self.maxsize < len(self._queue):
                if not block:
                    raise Full
                if not self._not_full.wait(timeout=timeout):
                    raise Full
            self._queue.append(item)"""),
    # ---------------- C16
    dict(id='C16-m1', prop='C16', file=S, desc='D1 regression: async feeder assigns the failed future to fut but enqueues t',
         old="""                    except Exception as e:
                        t = asyncio.Future()
                        t.set_exception(e)""",
         new="""                    except Exception as e:
                        fut = asyncio.Future()
                        fut.set_exception(e)"""),
    dict(id='C16-m2', prop='C16', file=S, desc='async feeder enqueues the preprocessed value as x (return_x pairs with it)',
         old="""                        t = await func(xx, **func_kwargs)
                await tasks.put((x, t))""",
         new="""                        t = await func(xx, **func_kwargs)
                        x = xx if tasks.full() else x
                await tasks.put((x, t))"""),
    dict(id='C16-m3', prop='C16', file=S, desc='async consumer returns exception of a done later task first when return_exceptions (order)',
         old="""            x, t = z
            try:
                y = await t
            except Exception as e:
                if return_exceptions:
                    y = e
                else:
                    raise""",
         new="""            x, t = z
            try:
                y = await t
            except Exception as e:
                if return_exceptions:
                    y = e
                elif not tasks.empty():
                    y = e
                else:
                    raise"""),
    dict(id='C16-m4', prop='C16', file=SA, desc='AsyncParmapperAsync forwards return_x only when concurrency > 1',
         old="""            capacity=self._concurrency * 2,
            return_x=self._return_x,
            return_exceptions=self._return_exceptions,
            preprocessor=self._preprocessor,
            loop=asyncio.get_running_loop(),""",
         new="""            capacity=self._concurrency * 2,
            return_x=self._return_x and self._concurrency > 1,
            return_exceptions=self._return_exceptions,
            preprocessor=self._preprocessor,
            loop=asyncio.get_running_loop(),"""),
    # ---------------- C19
    dict(id='C19-m1', prop='C19', file=S, desc='batch may grow to batch_size+1',
         old="            while n < batchsize:\n                t = deadline - time.perf_counter()", new="            while n <= batchsize:\n                t = deadline - time.perf_counter()"),
    dict(id='C19-m3', prop='C19', file=S, desc='past the deadline the batcher no longer picks up items that are already queued',
         old="                    z = q_in.get(timeout=max(0, t))", new="                    if t <= 0 and n > 1:\n                        raise queue.Empty\n                    z = q_in.get(timeout=max(0, t))"),
    # ---------------- C03
    dict(id='C03-m1', prop='C03', file=S, desc='Header yields n+1 elements when n equals 3',
         old="            if n >= nn:\n                # Stop without", new="            if n >= nn + (nn == 3):\n                # Stop without"),
    dict(id='C03-m2', prop='C03', file=S, desc='Tailer keeps n+1 elements',
         old="        data = deque(maxlen=self.n)\n        for v in self._instream:", new="        data = deque(maxlen=self.n + 1)\n        for v in self._instream:"),
    dict(id='C03-m3', prop='C03', file=S, desc='Batcher drops the final partial batch when it has a single element',
         old="        if batch:\n            yield batch\n\n\nclass Unbatcher", new="        if len(batch) > 1 or (batch and batch_size == 1):\n            yield batch\n\n\nclass Unbatcher"),
    dict(id='C03-m4', prop='C03', file=S, desc='Accumulator treats a falsy initializer (0) as not set',
         old="                if z is NOTSET:\n                    z = x", new="                if z is NOTSET or not z:\n                    z = x"),
    dict(id='C03-m5', prop='C03', file=S, desc='filter_exceptions checks drop before keep',
         old="""                if keep_exc_types is not None and isinstance(x, keep_exc_types):
                    return True
                if drop_exc_types is not None and isinstance(x, drop_exc_types):
                    return False""",
         new="""                if drop_exc_types is not None and isinstance(x, drop_exc_types):
                    return False
                if keep_exc_types is not None and isinstance(x, keep_exc_types):
                    return True"""),
    dict(id='C03-m6', prop='C03', file=S, desc='Stream.buffer starts pulling at construction time (not lazy)',
         old="        self.streamlets.append(Buffer(self.streamlets[-1], maxsize))\n        return self",
         new="        self.streamlets.append(Buffer(iter(self.streamlets[-1]) if maxsize == 3 else self.streamlets[-1], maxsize))\n        return self"),
    dict(id='C03-m7', prop='C03', file=S, desc='Shuffler loses the element it swaps out when the buffer index is 0',
         old="                y = buffer[idx]\n                buffer[idx] = x\n                yield y", new="                y = buffer[idx]\n                buffer[idx] = x\n                if idx or buffersize < 3:\n                    yield y"),
]
