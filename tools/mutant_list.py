"""Seeded mutants for the sensitivity protocol (each compiles; designed to pass the repo's own tests)."""

S = 'streamer/_streamer.py'
SA = 'streamer/_streamer_async.py'

MUTANTS = [
    # ---------------- C01
    dict(id='C01-m1', prop='C01', file=S, desc='under return_x an exception result is paired with itself instead of its input when more results are queued',
         old="""                if return_exceptions:
                    # TODO: think about when `e` is a "remote exception".
                    y = e""",
         new="""                if return_exceptions:
                    # TODO: think about when `e` is a "remote exception".
                    y = e
                    x = y if return_x and not tasks.empty() else x"""),
    dict(id='C01-m2', prop='C01', file='_queues.py', desc='SingleLane.get pops from the right when queue is full (LIFO at wrap-around)',
         old="""            z = self._queue.popleft()
            self._not_full.notify()""",
         new="""            z = self._queue.pop() if 1 < self.maxsize <= len(self._queue) else self._queue.popleft()
            self._not_full.notify()"""),
    dict(id='C01-m3', prop='C01', file=S, desc='feeder calls func on the raw element when preprocessor is an extractor and queue is full',
         old="""                    else:
                        fut = func(xx, **func_kwargs)
                q.put((x, fut))""",
         new="""                    else:
                        fut = func(xx if not q.full() else x, **func_kwargs)
                q.put((x, fut))"""),
    dict(id='C01-m4', prop='C01', file=S, desc='feeder re-submits the element when put had to wait (duplicate call)',
         old="""                q.put((x, fut))
                # The size of the queue `q` regulates how many
                # concurrent calls to `func` there can be.
        except BaseException as e:""",
         new="""                if q.full() and preprocessor is None and fut.done():
                    fut = func(x, **func_kwargs)
                q.put((x, fut))
                # The size of the queue `q` regulates how many
                # concurrent calls to `func` there can be.
        except BaseException as e:"""),
    # ---------------- C05
    dict(id='C05-m1', prop='C05', file=S, desc="fifo_stream finally no longer drains the queue before joining the feeder",
         old="""    finally:
        while not tasks.empty():
            z = tasks.get()
            if z is None:
                break
            if isinstance(z, BaseException):
                break
            _, t = z
            t.cancel()
        feeder.join()""",
         new="""    finally:
        feeder.join()"""),
    dict(id='C05-m2', prop='C05', file=S, desc='to_stop not set on GeneratorExit (only on Exception)',
         old="""    except BaseException:  # in particular, include GeneratorExit
        to_stop.set()
        raise
    finally:
        while not tasks.empty():
            z = tasks.get()""",
         new="""    except Exception:
        to_stop.set()
        raise
    finally:
        while not tasks.empty():
            z = tasks.get()"""),
    dict(id='C05-m3', prop='C05', file=S, desc='Buffer worker swallows the source exception (ends stream normally)',
         old="""        except BaseException as e:  # incl. `StopRequested` from a stoppable source
            q.put(STOPPED)
            q.put(e)
            # raise""",
         new="""        except BaseException as e:  # incl. `StopRequested` from a stoppable source
            q.put(FINISHED)
            # raise"""),
    dict(id='C05-m4', prop='C05', file=S, desc='ParmapperAsync does not stop its loop thread when closed early (only on exhaustion)',
         old="""        finally:
            to_stop.set()
            worker.join()""",
         new="""        except GeneratorExit:
            raise
        else:
            to_stop.set()
            worker.join()"""),
    dict(id='C05-m5', prop='C05', file=SA, desc='AsyncBuffer._finalize drains only once again (regression of D6 in async twin)',
         old="""        while worker.is_alive():
            # The worker may be blocked in `put` on a full queue, and after
            # that it still needs room for the end marker (or the `STOPPED`
            # marker plus the exception object). Keep making room until it exits.
            try:
                tasks.get(timeout=0.01)
            except queue.Empty:
                pass
        worker.join()
        self._stopped = None

    async def __aiter__(self):""",
         new="""        while not tasks.empty():
            tasks.get()
        worker.join()
        self._stopped = None

    async def __aiter__(self):"""),
    # ---------------- C08
    dict(id='C08-m1', prop='C08', file=S, desc='fifo_stream hand-off queue one slot larger',
         old="    tasks = SingleLane(capacity + 1)", new="    tasks = SingleLane(capacity + 2)"),
    dict(id='C08-m2', prop='C08', file=S, desc='fifo_stream hand-off queue unbounded',
         old="    tasks = SingleLane(capacity + 1)", new="    tasks = SingleLane(0)"),
    dict(id='C08-m3', prop='C08', file=S, desc='thread pool twice the concurrency',
         old="""            executor = ThreadPoolExecutor(
                self._concurrency,
                initializer=self._executor_initializer,
                initargs=self._executor_init_args,
                thread_name_prefix=self._name + '-thread',""",
         new="""            executor = ThreadPoolExecutor(
                self._concurrency * 2,
                initializer=self._executor_initializer,
                initargs=self._executor_init_args,
                thread_name_prefix=self._name + '-thread',"""),
    dict(id='C08-m4', prop='C08', file=S, desc='Buffer queue one slot larger',
         old="        self._tasks = SingleLane(self.maxsize)\n        self._worker = Thread(target=self._run_worker, name='Buffer-worker-thread')",
         new="        self._tasks = SingleLane(self.maxsize + 1)\n        self._worker = Thread(target=self._run_worker, name='Buffer-worker-thread')"),
    dict(id='C08-m5', prop='C08', file='_queues.py', desc='SingleLane.put waits only once: after a timeout-less wake-up it appends even if still full (if instead of while is original; here: skip wait when exactly full+0 and reader is mid-get)',
         old="""            if 0 < self.maxsize <= len(self._queue):
                if not block:
                    raise Full
                if not self._not_full.wait(timeout=timeout):
                    raise Full
            self._queue.append(item)""",
         new="""            if 0 < self.maxsize < len(self._queue):
                if not block:
                    raise Full
                if not self._not_full.wait(timeout=timeout):
                    raise Full
            self._queue.append(item)"""),
    # ---------------- C16
    dict(id='C16-m1', prop='C16', file=S, desc='D1 regression: async feeder assigns the failed future to fut but enqueues t',
         old="""                    except Exception as e:
                        t = asyncio.Future()
                        t.set_exception(e)""",
         new="""                    except Exception as e:
                        fut = asyncio.Future()
                        fut.set_exception(e)"""),
    dict(id='C16-m2', prop='C16', file=S, desc='async feeder enqueues the preprocessed value as x (return_x pairs with it)',
         old="""                        t = await func(xx, **func_kwargs)
                await tasks.put((x, t))""",
         new="""                        t = await func(xx, **func_kwargs)
                        x = xx if tasks.full() else x
                await tasks.put((x, t))"""),
    dict(id='C16-m3', prop='C16', file=S, desc='async consumer returns exception of a done later task first when return_exceptions (order)',
         old="""            x, t = z
            try:
                y = await t
            except Exception as e:
                if return_exceptions:
                    y = e
                else:
                    raise""",
         new="""            x, t = z
            try:
                y = await t
            except Exception as e:
                if return_exceptions:
                    y = e
                elif not tasks.empty():
                    y = e
                else:
                    raise"""),
    dict(id='C16-m4', prop='C16', file=SA, desc='AsyncParmapperAsync forwards return_x only when concurrency > 1',
         old="""            capacity=self._concurrency * 2,
            return_x=self._return_x,
            return_exceptions=self._return_exceptions,
            preprocessor=self._preprocessor,
            loop=asyncio.get_running_loop(),""",
         new="""            capacity=self._concurrency * 2,
            return_x=self._return_x and self._concurrency > 1,
            return_exceptions=self._return_exceptions,
            preprocessor=self._preprocessor,
            loop=asyncio.get_running_loop(),"""),
    # ---------------- C19
    dict(id='C19-m1', prop='C19', file=S, desc='batch may grow to batch_size+1',
         old="            while n < batchsize:\n                t = deadline - time.perf_counter()", new="            while n <= batchsize:\n                t = deadline - time.perf_counter()"),
    dict(id='C19-m3', prop='C19', file=S, desc='past the deadline the batcher no longer picks up items that are already queued',
         old="                    z = q_in.get(timeout=max(0, t))", new="                    if t <= 0 and n > 1:\n                        raise queue.Empty\n                    z = q_in.get(timeout=max(0, t))"),
    # ---------------- C03
    dict(id='C03-m1', prop='C03', file=S, desc='Header yields n+1 elements when n equals 3',
         old="            if n >= nn:\n                # Stop without", new="            if n >= nn + (nn == 3):\n                # Stop without"),
    dict(id='C03-m2', prop='C03', file=S, desc='Tailer keeps n+1 elements',
         old="        data = deque(maxlen=self.n)\n        for v in self._instream:", new="        data = deque(maxlen=self.n + 1)\n        for v in self._instream:"),
    dict(id='C03-m3', prop='C03', file=S, desc='Batcher drops the final partial batch when it has a single element',
         old="        if batch:\n            yield batch\n\n\nclass Unbatcher", new="        if len(batch) > 1 or (batch and batch_size == 1):\n            yield batch\n\n\nclass Unbatcher"),
    dict(id='C03-m4', prop='C03', file=S, desc='Accumulator treats a falsy initializer (0) as not set',
         old="                if z is NOTSET:\n                    z = x", new="                if z is NOTSET or not z:\n                    z = x"),
    dict(id='C03-m5', prop='C03', file=S, desc='filter_exceptions checks drop before keep',
         old="""                if keep_exc_types is not None and isinstance(x, keep_exc_types):
                    return True
                if drop_exc_types is not None and isinstance(x, drop_exc_types):
                    return False""",
         new="""                if drop_exc_types is not None and isinstance(x, drop_exc_types):
                    return False
                if keep_exc_types is not None and isinstance(x, keep_exc_types):
                    return True"""),
    dict(id='C03-m6', prop='C03', file=S, desc='Stream.buffer starts pulling at construction time (not lazy)',
         old="        self.streamlets.append(Buffer(self.streamlets[-1], maxsize))\n        return self",
         new="        self.streamlets.append(Buffer(iter(self.streamlets[-1]) if maxsize == 3 else self.streamlets[-1], maxsize))\n        return self"),
    dict(id='C03-m7', prop='C03', file=S, desc='Shuffler loses the element it swaps out when the buffer index is 0',
         old="                y = buffer[idx]\n                buffer[idx] = x\n                yield y", new="                y = buffer[idx]\n                buffer[idx] = x\n                if idx or buffersize < 3:\n                    yield y"),
    # ---------------- C02
    dict(id='C02-m1', prop='C02', file='mpserver/_worker.py', desc='batch split pairs ids with outputs in reverse when the batch has 3 elements',
         old="                    for z in zip(uids, yy):\n                        q_out.put(z)", new="                    for z in zip(uids if len(uids) != 3 else reversed(uids), yy):\n                        q_out.put(z)"),
    dict(id='C02-m2', prop='C02', file='mpserver/_servlet.py', desc='ensemble stores a member result one slot to the left when a later member answered first',
         old="                    z['y'][idx] = y\n                    z['n'] += 1", new="                    z['y'][idx if z['n'] == 0 or idx == 0 else idx - (z['y'][idx - 1] is None)] = y\n                    z['n'] += 1"),
    dict(id='C02-m3', prop='C02', file='mpserver/_server.py', desc='request ids minted from id(fut) again (D5 regression)',
         old="        uid = next(self._uid_counter)\n\n        with self._pipeline_notfull:", new="        uid = id(fut)\n\n        with self._pipeline_notfull:"),
    dict(id='C02-m5', prop='C02', file='mpserver/_server.py', desc='D4 regression: put before ledger entry (sync server)',
         old="            pipeline[uid] = fut\n            self._input_buffer.put((uid, x))\n\n        fut.data['t1'] = perf_counter()\n        return fut",
         new="            self._input_buffer.put((uid, x))\n            pipeline[uid] = fut\n\n        fut.data['t1'] = perf_counter()\n        return fut"),
    dict(id='C02-m6', prop='C02', file='mpserver/_servlet.py', desc='switch servlet ignores switch() for exception-free inputs when the first member queue is empty',
         old="            idx = self.switch(x)\n            qins[idx].put((uid, x))", new="            idx = self.switch(x)\n            if qins[0].empty() and len(qins) > 1 and idx == 1 and uid % 5 == 4:\n                idx = 0\n            qins[idx].put((uid, x))"),
    # ---------------- C06
    dict(id='C06-m1', prop='C06', file='mpserver/_server.py', desc='D3 regression: if instead of while (sync)',
         old="                while len(pipeline) >= self._capacity:\n                    if not self._pipeline_notfull.wait(", new="                if len(pipeline) >= self._capacity:\n                    if not self._pipeline_notfull.wait("),
    dict(id='C06-m2', prop='C06', file='mpserver/_server.py', desc='capacity compared with > (one slot too many)',
         old="        with self._pipeline_notfull:\n            if len(pipeline) >= self._capacity:", new="        with self._pipeline_notfull:\n            if len(pipeline) > self._capacity:"),
    dict(id='C06-m3', prop='C06', file='mpserver/_server.py', desc='slot of a cancelled future is not released (ledger entry re-inserted)',
         old="                if isinstance(y, RemoteException):\n                    y = y.exc\n                if not fut.cancelled():\n                    try:", new="                if isinstance(y, RemoteException):\n                    y = y.exc\n                if fut.cancelled():\n                    pipeline[uid] = fut\n                if not fut.cancelled():\n                    try:"),
    dict(id='C06-m4', prop='C06', file='mpserver/_server.py', desc='backpressure rejection waits 1 ms first',
         old="                if backpressure:\n                    raise ServerBacklogFull(len(pipeline))\n                wait_deadline = t0 + timeout * 0.99\n                # Re-check after every wake-up: between the notification and this\n                # thread",
         new="                if backpressure:\n                    self._pipeline_notfull.wait(0.001)\n                    raise ServerBacklogFull(len(pipeline))\n                wait_deadline = t0 + timeout * 0.99\n                # Re-check after every wake-up: between the notification and this\n                # thread"),
    # ---------------- C07
    dict(id='C07-m1', prop='C07', file='mpserver/_server.py', desc='D2 regression: no InvalidStateError guard',
         old="                    except concurrent.futures.InvalidStateError:\n                        # The caller timed out", new="                    except ZeroDivisionError:\n                        # The caller timed out"),
    dict(id='C07-m2', prop='C07', file='mpserver/_server.py', desc='timed-out caller removes its own ledger entry as well (double removal, late result hits KeyError... and notify lost)',
         old="            fut.cancel()\n            t0 = fut.data['t0']\n            fut.data['t_cancelled'] = perf_counter()", new="            fut.cancel()\n            for k, v in list(self._uid_to_futures.items()):\n                if v is fut:\n                    self._uid_to_futures.pop(k, None)\n                    self._input_buffer.put((k, None))\n            t0 = fut.data['t0']\n            fut.data['t_cancelled'] = perf_counter()"),
    dict(id='C07-m3', prop='C07', file='mpserver/_server.py', desc='gather thread re-raises when the future was cancelled',
         old="                if not fut.cancelled():\n                    try:\n                        if isinstance(y, BaseException):", new="                if fut.cancelled() and isinstance(y, BaseException):\n                    raise y\n                if not fut.cancelled():\n                    try:\n                        if isinstance(y, BaseException):"),
    # ---------------- C09
    dict(id='C09-m1', prop='C09', file='mpserver/_worker.py', desc='batch may reach batch_size+1',
         old="        while n < batchsize:\n            t = deadline - perf_counter()", new="        while n <= batchsize:\n            t = deadline - perf_counter()"),
    dict(id='C09-m2', prop='C09', file='mpserver/_worker.py', desc='deadline restarted at every element',
         old="            out.append(z)\n            n += 1\n\n        self._batch_get_called.set()", new="            out.append(z)\n            n += 1\n            deadline = perf_counter() + extra_timeout\n\n        self._batch_get_called.set()"),
    dict(id='C09-m3', prop='C09', file='mpserver/_worker.py', desc='end marker appended to the batch instead of re-queued',
         old="            if z is None:\n                # Return the batch so far.\n                # Put this indicator back in the buffer.\n                # Next call to this method will get\n                # the indicator.\n                buffer.put(z)\n                break",
         new="            if z is None:\n                out.append(z)\n                buffer.put(z)\n                break"),
    dict(id='C09-m4', prop='C09', file='mpserver/_worker.py', desc='element rejected by preprocess is still put in the batch buffer',
         old="                        if isinstance(x, Exception):\n                            q_out.put((uid, RemoteException(x)))\n                        elif", new="                        if isinstance(x, Exception):\n                            q_out.put((uid, RemoteException(x)))\n                            if buffer.qsize() == 1:\n                                buffer.put((uid, x))\n                        elif"),
    dict(id='C09-m5', prop='C09', file='mpserver/_worker.py', desc='single mode with batch_size=1 passes the bare element instead of [x] when preprocess is defined',
         old="                q_uid.put(uid)\n                if batched:\n                    yield [x]", new="                q_uid.put(uid)\n                if batched and preprocess is None:\n                    yield [x]"),
    # ---------------- C04
    dict(id='C04-m1', prop='C04', file='mpserver/_worker.py', desc='batch failure is sent to the first member only, the others get the raw exception-less None',
         old="                    for u in uids:\n                        q_out.put((u, err))", new="                    for u in uids[:1]:\n                        q_out.put((u, err))\n                    for u in uids[1:]:\n                        q_out.put((u, None))"),
    dict(id='C04-m2', prop='C04', file='mpserver/_servlet.py', desc='switch servlet wraps an upstream RemoteException again instead of forwarding it (error type becomes ValueError/garbage)',
         old="            if isinstance(x, RemoteException):\n                # short circuit exception to the output queue\n                qout.put((uid, x))\n                continue\n\n            # Determine",
         new="            if isinstance(x, RemoteException):\n                qout.put((uid, RemoteException(RuntimeError(str(x.exc)), x.tb)))\n                continue\n\n            # Determine"),
    dict(id='C04-m3', prop='C04', file='mpserver/_servlet.py', desc='fail_fast checks completion first: a failing last member yields a list instead of EnsembleError',
         old="                    if fail_fast and isinstance(y, RemoteException):", new="                    if fail_fast and isinstance(y, RemoteException) and z['n'] < nn:"),
    dict(id='C04-m4', prop='C04', file='multiprocessing/remote_exception.py', desc='RemoteException formats the traceback without frames (limit=0) when the exception has a non-default constructor',
         old="                tb = ''.join(\n                    traceback.format_exception(type(exc), exc, exc.__traceback__)\n                )",
         new="                tb = ''.join(\n                    traceback.format_exception(type(exc), exc, exc.__traceback__, limit=0 if len(exc.args) > 2 else None)\n                )"),
    dict(id='C04-m5', prop='C04', file='mpserver/_worker.py', desc='preprocess failure in single mode is reported with the exception of the previous failure (stale variable)',
         old="                        try:\n                            x = preprocess(x)\n                        except Exception as e:\n                            x = e\n\n                # If it's an exception, short-circuit to output.",
         new="                        try:\n                            x = preprocess(x)\n                        except Exception as e:\n                            x = getattr(self, '_last_pre_err', None) or e\n                            self._last_pre_err = x\n\n                # If it's an exception, short-circuit to output."),
    dict(id='C04-m6', prop='C04', file='mpserver/_servlet.py', desc='ensemble all-failed rule off by one: EnsembleError when all but one member failed',
         old="                        if all(isinstance(v, RemoteException) for v in z['y']):", new="                        if sum(isinstance(v, RemoteException) for v in z['y']) >= max(1, nn - 1) and nn > 2:"),
    # ---------------- C11
    dict(id='C11-m1', prop='C11', file='mpserver/_server.py', desc='D12 regression: servlet stopped before the onboarding thread has flushed (exit hangs after an abandoned stream over pipes)',
         old="""            self._input_buffer.put(None)
            self._onboard_thread.join()
        self.servlet.stop()
        # All the workers have exited, hence all the results that will ever come""",
         new="""            pass
        self.servlet.stop()
        if self._onboard_thread is not None:
            self._input_buffer.put(None)
            self._onboard_thread.join()
        # All the workers have exited, hence all the results that will ever come"""),
    dict(id='C11-m2', prop='C11', file='mpserver/_servlet.py', desc='ThreadServlet.stop joins only the first worker',
         old="""        assert self._started
        self._q_in.put(None)
        for w in self._workers:
            w.join()
        self._workers = []
        self._started = False

    @property
    def input_queue_type(self):
        return 'thread'""",
         new="""        assert self._started
        self._q_in.put(None)
        for w in self._workers[:1]:
            w.join()
        self._workers = []
        self._started = False

    @property
    def input_queue_type(self):
        return 'thread'"""),
    dict(id='C11-m3', prop='C11', file='mpserver/_worker.py', desc='single-mode worker does not re-broadcast the stop sentinel to fellow workers',
         old="                if z is None:\n                    q_in.put(z)  # broadcast to one fellow worker\n",
         new="                if z is None:\n"),
    dict(id='C11-m5', prop='C11', file='mpserver/_servlet.py', desc='D11 regression in SequentialServlet: earlier members left running when a later member fails to start',
         old="                for ss in self._servlets[:i]:\n                    ss.stop()\n                self._qs = []\n                raise", new="                self._qs = []\n                raise"),
    # C11-m6 (D26 regression: ledger not cleared on exit) removed: equivalent since D36 - the gather thread now sees every result before it ends, so nothing is left to clear
    dict(id='C11-m7', prop='C11', file='mpserver/_servlet.py', desc='SwitchServlet.stop forgets to stop its enqueue thread when it has a single member',
         old="        # See `EnsembleServlet.stop` about the order.\n        self._qin.put(None)\n        self._thread_enqueue.join()", new="        # See `EnsembleServlet.stop` about the order.\n        if len(self._servlets) > 1:\n            self._qin.put(None)\n            self._thread_enqueue.join()"),
    # ---------------- C10
    dict(id='C10-m2', prop='C10', file='streamer/_tee.py', desc='window head popped one consumer early',
         old="                if box.n == self.n_forks:", new="                if box.n == max(1, self.n_forks - 1):"),
    dict(id='C10-m3', prop='C10', file='streamer/_tee.py', desc='re-check under the source lock dropped (double pull)',
         old="                        if self.next.next is None and self.head.exc is None:", new="                        if self.head.exc is None:"),
    dict(id='C10-m4', prop='C10', file='streamer/_tee.py', desc='D9 regression: first-element path blocks unconditionally',
         old="                    if not self.instream_lock.acquire(timeout=0.1):\n                        continue", new="                    self.instream_lock.acquire()"),
    dict(id='C10-m6', prop='C10', file='streamer/_tee.py', desc='forks other than the failing one end by exhaustion (exception not remembered in prefetch path)',
         old="                                self.head.exc = e\n                            else:\n                                box = TeeX(x)", new="                                if self._fork_idx == 0:\n                                    self.head.exc = e\n                                else:\n                                    raise\n                            else:\n                                box = TeeX(x)"),
    # ---------------- C17
    dict(id='C17-m1', prop='C17', file='queue.py', desc='put_end enqueues two end markers when the queue is empty',
         old="        self._applied_lids.put(z)\n        self.put(None)\n", new="        self._applied_lids.put(z)\n        self.put(None)\n        if self._q.qsize() == 1 and self._num_suppliers > 2:\n            self.put(None)\n"),
    dict(id='C17-m2', prop='C17', file='queue.py', desc='renew recycles one token too few when there are 3 suppliers',
         old="        for _ in range(self._num_suppliers):\n            z = self._used_lids.get()\n            self._spare_lids.put(z)", new="        for _ in range(self._num_suppliers - (self._num_suppliers == 3)):\n            z = self._used_lids.get()\n            self._spare_lids.put(z)"),
    dict(id='C17-m3', prop='C17', file='queue.py', desc='ResponsiveQueue ignores the stop event when timeout is None',
         old="                if stop_requested.is_set():\n                    raise StopRequested", new="                if stop_requested.is_set() and timeout is not None:\n                    raise StopRequested"),
    dict(id='C17-m4', prop='C17', file='queue.py', desc='D15 regression: lid bookkeeping not atomic',
         old="            with self._lids_lock:\n                if self._used_lids.full():", new="            if True:\n                if self._used_lids.full():"),
    dict(id='C17-m5', prop='C17', file='queue.py', desc='ResponsiveQueue polls with twice the wait interval',
         old="                    timeout=max(0, min(wait_interval_seconds, time_available)),", new="                    timeout=max(0, min(wait_interval_seconds * 2, time_available)),"),
    # ---------------- C15
    dict(id='C15-m1', prop='C15', file='multiprocessing/remote_exception.py', desc='rebuilt exception gets its remote traceback only when it has args',
         old="    exc.__cause__ = RemoteTraceback(tb)\n\n    return exc", new="    if exc.args:\n        exc.__cause__ = RemoteTraceback(tb)\n\n    return exc"),
    dict(id='C15-m2', prop='C15', file='multiprocessing/remote_exception.py', desc='forwarded remote traceback is truncated to 3000 characters',
         old="                    tb = get_remote_traceback(exc)\n", new="                    tb = get_remote_traceback(exc)[-3000:]\n"),
    dict(id='C15-m3', prop='C15', file='multiprocessing/remote_exception.py', desc='EnsembleError re-wrap skips the last member',
         old="            for i in range(len(z)):\n                if isinstance(z[i], BaseException):", new="            for i in range(len(z) - (len(z) > 2)):\n                if isinstance(z[i], BaseException):"),
    dict(id='C15-m4', prop='C15', file='multiprocessing/remote_exception.py', desc='EnsembleError.__reduce__ rebuilds from a copy that drops None members count (n recomputed)',
         old="        return type(self), (self.args[1],)", new="        r = dict(self.args[1])\n        r['n'] = sum(1 for v in r['y'] if v is not None and not isinstance(v, tuple))\n        return type(self), (r,)"),
    # ---------------- C12
    dict(id='C12-m1', prop='C12', file='multiprocessing/context.py', desc='D13 regression: EOF path raises in the collector thread without resolving the future',
         old="                error = OSError(exitcode, msg)\n                error.__cause__ = exc", new="                raise OSError(exitcode, msg) from exc"),
    dict(id='C12-m2', prop='C12', file='multiprocessing/context.py', desc='every signal is treated like SIGTERM (silent success)',
         old="            if exitcode == errno.ENOTBLK:  # 15", new="            if exitcode > 0:  # any signal"),
    dict(id='C12-m3', prop='C12', file='multiprocessing/context.py', desc='exception() returns None when the exitcode is 1',
         old="        self._result_collector_thread_.join()\n        return self._future_.exception()", new="        self._result_collector_thread_.join()\n        if self.exitcode == 1:\n            return None\n        return self._future_.exception()"),
    dict(id='C12-m4', prop='C12', file='threading/__init__.py', desc='Thread.join does not re-raise',
         old="        if self._future_.exception():\n            raise self._future_.exception()\n\n    def done(self) -> bool:", new="        self._future_.exception()\n\n    def done(self) -> bool:"),
    dict(id='C12-m5', prop='C12', file='threading/__init__.py', desc='sys.exit("text") in a thread is reported as success',
         old="                else:\n                    self.handle_exception(e)\n                    self._future_.set_exception(e)\n        except BaseException as e:", new="                else:\n                    self._future_.set_result(None)\n        except BaseException as e:"),
    dict(id='C12-m6', prop='C12', file='threading/__init__.py', desc='D24 regression: future created in run()',
         old="        self._future_: concurrent.futures.Future = concurrent.futures.Future()\n", new="        self._future_: concurrent.futures.Future = None\n"),
    # ---------------- C13
    dict(id='C13-m1', prop='C13', file='multiprocessing/server_process.py', desc='RebuildProxy drops the compensating decref',
         old="        if server:\n            server.decref(None, token.id)\n        else:\n            obj._dispatch('decref')\n\n    return obj", new="        if server:\n            server.decref(None, token.id)\n\n    return obj"),
    dict(id='C13-m2', prop='C13', file='multiprocessing/server_process.py', desc='__reduce__ no longer increments before the pickle leaves (client side)',
         old="            conn = self._Client(self._token.address, authkey=self._authkey)\n            dispatch(conn, None, 'incref', (self._id,))\n\n        kwds = {}", new="            pass\n\n        kwds = {}"),
    dict(id='C13-m3', prop='C13', file='multiprocessing/server_process.py', desc='MemoryBlock release closes but does not unlink',
         old="            mem.close()\n            mem.unlink()", new="            mem.close()"),
    dict(id='C13-m4', prop='C13', file='multiprocessing/server_process.py', desc='D27 regression: inherited proxies skip incref',
         old="    incref = kwds.pop('incref', True)\n    # Unlike", new="    incref = kwds.pop('incref', True) and not getattr(current_process(), '_inheriting', False)\n    # Unlike"),
    # ---------------- C14
    dict(id='C14-m1', prop='C14', file='multiprocessing/server_process.py', desc='#ERROR sent without wrapping (no server-side traceback)',
         old="            msg = ('#ERROR', self._wrap_user_exc(e))", new="            msg = ('#ERROR', e)"),
    dict(id='C14-m2', prop='C14', file='multiprocessing/server_process.py', desc='D31 regression: generated __imul__ replaces the hand-written one',
         old="    'reverse',\n    'sort',\n)\nclass ListProxy(BaseProxy):", new="    'reverse',\n    'sort',\n    '__imul__',\n)\nclass ListProxy(BaseProxy):"),
    dict(id='C14-m3', prop='C14', file='multiprocessing/server_process.py', desc='ValueProxy.set silently ignores negative values',
         old="        return self._callmethod('set', (value,))", new="        if isinstance(value, int) and value < -5:\n            return None\n        return self._callmethod('set', (value,))"),
    dict(id='C14-m4', prop='C14', file='multiprocessing/server_process.py', desc='managed() returns the object itself (a copy reaches the client) for lists longer than 2',
         old="    server = get_server()\n    if not server:\n        return obj\n", new="    server = get_server()\n    if not server or (isinstance(obj, list) and len(obj) > 2):\n        return obj\n"),
    # ---------------- C18
    dict(id='C18-m1', prop='C18', file='socket.py', desc='header length counts characters of the repr for str payloads with non-ascii (utf8 encoder)',
         old="        return data.encode('utf8')", new="        return data.encode('utf8') if data.isascii() else data.encode('utf8')[: len(data)]"),
    dict(id='C18-m3', prop='C18', file='socket.py', desc='read_record strips trailing whitespace of none-encoded payloads',
         old="    assert encoder == 'none'\n    return data  # bytes unchanged", new="    assert encoder == 'none'\n    return data.rstrip(b'\\n') if len(data) > 1 else data"),
    # ---------------- C20
    dict(id='C20-m1', prop='C20', file='multiprocessing/context.py', desc='D14 regression: logger thread ended as soon as the outcome arrives',
         old="        multiprocessing.connection.wait([self.sentinel])\n        self._logger_queue_.put(None)", new="        self._logger_queue_.put(None)"),
    dict(id='C20-m2', prop='C20', file='multiprocessing/context.py', desc='parent drops a forwarded record whose message repeats the previous one',
         old="            logger = logging.getLogger(record.name)\n            if record.levelno >= logger.getEffectiveLevel():", new="            logger = logging.getLogger(record.name)\n            if getattr(logger, '_last_msg', None) == record.getMessage():\n                continue\n            logger._last_msg = record.getMessage()\n            if record.levelno >= logger.getEffectiveLevel():"),
    dict(id='C20-m3', prop='C20', file='multiprocessing/context.py', desc='parent handles records regardless of the parent logger level',
         old="            if record.levelno >= logger.getEffectiveLevel():\n                logger.handle(record)", new="            if record.levelno >= logging.DEBUG:\n                logger.handle(record)"),

    # ---------------- regressions of D36-D39
    dict(id='C11-m9', prop='C11', file='mpserver/_worker.py', desc='D36 regression: single-mode worker forwards the stop sentinel downstream at once (overtakes fellow workers; exit hangs with large results in flight)',
         old="""                    # ends the reader of `q_out` after all the workers have exited.
                    break""",
         new="""                    # ends the reader of `q_out` after all the workers have exited.
                    q_out.put(z)
                    break"""),
    dict(id='C07-m9', prop='C07', file='mpserver/_server.py', desc='D37 regression: a call whose wait for a slot expired neither re-checks for a freed slot nor passes the wake-up on (either half alone repairs D37: the two one-half mutants are equivalent and not listed)',
         old="""                        if len(pipeline) < self._capacity:
                            # A slot was freed just as the wait expired.
                            break
                        # A notification issued just after this wait had expired
                        # is consumed by this (leaving) waiter nonetheless. Pass it on,
                        # otherwise another waiter could sleep until its own deadline
                        # next to a free slot. (A needless wake-up is harmless: the
                        # waiter re-checks and goes back to waiting.)
                        self._pipeline_notfull.notify()
""",
         new=""""""),
    dict(id='C04-m9', prop='C04', file='mpserver/_server.py', desc="D38 regression: a worker's own TimeoutError is reported as the call timing out",
         old="""            if fut.done() and not fut.cancelled() and fut.exception() is e:
                # The wait did not time out: this is the request's own failure,
                # a `TimeoutError` raised by a worker.
                raise
            fut.cancel()""",
         new="""            fut.cancel()"""),
    dict(id='C12-m9', prop='C12', file='multiprocessing/context.py', desc='D39 regression: the logger thread of a killed child is left to the finalizer (dead-lock when collected inside threading critical section)',
         old="""        else:
            self._logger_thread_.join(timeout=1)""",
         new="""        else:
            pass"""),
]
