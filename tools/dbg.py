"""debug helper: run one replay file in-process and print the observation (sim families)"""
import sys, json
sys.path.insert(0, '/verif')
from vf import detsched
detsched.install()
from vf import simloop
simloop.install()
import threading, logging
threading.excepthook = lambda a: None
import importlib
f = json.load(open(sys.argv[1]))
mod = importlib.import_module('props.' + f['property'].lower())
fam = {x.name: x for x in mod.FAMILIES}[f['family']]
if '--log' in sys.argv:
    logging.basicConfig(level=logging.DEBUG)
else:
    logging.disable(logging.CRITICAL)
try:
    info = fam.run(f['params'])
    print('OK', info.sample)
except Exception as e:
    print(type(e).__name__, e)
    import traceback; traceback.print_exc()
