#!/usr/bin/env python3
"""Confirm a sub-agent's seeded change in a scratch worktree and keep it under /verif/seeded/<id>/.

usage: tools/seed_keep.py <agent-worktree> <a|b> <seed-id> <property> [--tests "pytest args"] [--scale S] [--tier quick]

Steps (all in a fresh scratch worktree of /repo HEAD under /tmp, removed afterwards):
  1. demo on the clean tree must exit 0 (2 runs);  2. patch must apply;  3. demo with the patch must exit != 0 (2 runs);
  4. the relevant existing tests must pass with the patch;  5. our check for the property is run against the patched source.
"""
import json
import os
import shutil
import subprocess
import sys
import time

ROOT = os.path.dirname(os.path.dirname(os.path.abspath(__file__)))


def sh(cmd, **kw):
    return subprocess.run(cmd, shell=True, capture_output=True, text=True, **kw)


def main(argv):
    wt, x, sid, prop = argv[:4]
    tests = None
    scale = '1'
    tier = 'quick'
    i = 4
    while i < len(argv):
        if argv[i] == '--tests':
            tests = argv[i + 1]
        elif argv[i] == '--scale':
            scale = argv[i + 1]
        elif argv[i] == '--tier':
            tier = argv[i + 1]
        i += 2
    patch = os.path.join(wt, f'MUT_{x}.diff')
    demo = os.path.join(wt, f'demo_{x}.py')
    note = os.path.join(wt, f'note_{x}.md')
    scratch = f'/tmp/sw_{sid}'
    sh(f'git -C /repo worktree remove --force {scratch}')
    r = sh(f'git -C /repo worktree add -q --detach {scratch} HEAD')
    assert r.returncode == 0, r.stderr
    meta = {'id': sid, 'property': prop, 'source': f'sub-agent worktree {wt} change {x}', 'repo_head': sh('git -C /repo rev-parse --short HEAD').stdout.strip(), 'ran': []}
    ok = True
    try:
        env = dict(os.environ, PYTHONPATH=f'{scratch}/src')
        shutil.copy(demo, f'{scratch}/demo.py')

        def run_demo(tag):
            rcs = []
            for _ in range(2):
                p = subprocess.run(['/venv/bin/python', 'demo.py'], cwd=scratch, env=env, capture_output=True, text=True, timeout=300)
                rcs.append(p.returncode)
            meta['ran'].append({'cmd': f'PYTHONPATH={scratch}/src /venv/bin/python demo.py ({tag}) x2', 'exit_codes': rcs})
            return rcs

        clean = run_demo('clean tree')
        ap = sh(f'git -C {scratch} apply --3way {patch}')
        if ap.returncode != 0:
            ap = sh(f'patch -p1 -d {scratch} -i {patch}')
        meta['ran'].append({'cmd': f'git apply {os.path.basename(patch)}', 'exit': ap.returncode, 'err': ap.stderr[-300:]})
        if ap.returncode != 0:
            print('PATCH DOES NOT APPLY', ap.stderr)
            return 2
        sh(f'git -C {scratch} diff HEAD -- src > {scratch}/patch_rebased.diff')
        mutated = run_demo('with change')
        meta['demo_clean_passes'] = all(c == 0 for c in clean)
        meta['demo_mutated_fails'] = all(c != 0 for c in mutated)
        ok = meta['demo_clean_passes'] and meta['demo_mutated_fails']
        if tests:
            t0 = time.time()
            p = sh(f'cd {scratch} && PYTHONPATH={scratch}/src /venv/bin/python -m pytest -q -p no:cacheprovider --timeout=600 {tests} 2>&1 | tail -5')
            meta['ran'].append({'cmd': f'pytest {tests} (with change)', 'tail': p.stdout[-600:], 'wall_s': round(time.time() - t0)})
            meta['tests_pass_with_change'] = (' failed' not in p.stdout) and (' error' not in p.stdout.lower() or 'errors' not in p.stdout.lower()) and ' passed' in p.stdout
            ok = ok and meta['tests_pass_with_change']
        # our check against the patched source
        env2 = dict(os.environ, VERIF_REPO_SRC=f'{scratch}/src', PYTHONPATH=f'{scratch}/src', VERIF_SCALE=scale, VERIF_EVIDENCE_DIR=f'{scratch}/evidence')
        t0 = time.time()
        c = subprocess.run([os.path.join(ROOT, 'check'), prop, tier], env=env2, capture_output=True, text=True)
        lines = [l for l in c.stdout.splitlines() if l.startswith(('VIOLATION', '  family', '  detail'))]
        meta['check'] = {'cmd': f'VERIF_REPO_SRC=<patched src> ./check {prop} {tier} (scale {scale})', 'exit': c.returncode, 'wall_s': round(time.time() - t0), 'violations': [l[:400] for l in lines[:6]]}
        meta['detected'] = c.returncode == 1
        if os.path.exists(note):
            meta['needs_to_manifest'] = open(note).read()[:3000]
        if ok:
            d = os.path.join(ROOT, 'seeded', sid)
            os.makedirs(d, exist_ok=True)
            shutil.copy(f'{scratch}/patch_rebased.diff', os.path.join(d, 'patch.diff'))
            shutil.copy(demo, os.path.join(d, 'demo.py'))
            with open(os.path.join(d, 'meta.json'), 'w') as f:
                json.dump(meta, f, indent=1)
        print(json.dumps({k: meta.get(k) for k in ('id', 'demo_clean_passes', 'demo_mutated_fails', 'tests_pass_with_change', 'detected')}))
        print('\n'.join(meta['check']['violations'][:3]))
        if not ok:
            print('NOT KEPT (confirmation failed):', json.dumps(meta['ran'])[:1500])
    finally:
        sh(f'git -C /repo worktree remove --force {scratch}')
        shutil.rmtree(scratch, ignore_errors=True)
    return 0 if ok else 1


if __name__ == '__main__':
    sys.exit(main(sys.argv[1:]))
